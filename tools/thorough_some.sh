#!/bin/bash
# tools/thorough_some.sh <seed> <ids...>: thorough tier of the given checks, no evidence written
cd "$(dirname "$0")/.."
sd=$1; shift
for c in "$@"; do s=$(date +%s); out=$(VERIF_SEED=$sd ./check $c --tier thorough --no-evidence 2>&1); rc=$?; e=$(date +%s)
  echo "seed=$sd $c rc=$rc $((e-s))s $(echo "$out" | grep -E 'VIOLATION|INCONCLUSIVE|HELD|violated predicate' | head -4 | tr '\n' ' ' | cut -c1-700)"; done
