#!/bin/bash
# runs every check's quick (or $1) tier, prints one line per check; validates evidence files
cd "$(dirname "$0")/.."
TIER=${1:-quick}
for i in $(seq -w 1 17); do
  s=$(date +%s)
  out=$(./check C$i --tier $TIER 2>&1); rc=$?
  e=$(date +%s)
  echo "C$i rc=$rc $((e-s))s $(echo "$out" | grep -E 'VIOLATION|INCONCLUSIVE|HELD' | head -3 | tr '\n' ' ')"
done
python3-vt - <<'PY'
import json,jsonschema,glob
S=json.load(open('/root/.vp/EVIDENCE.schema.json'))
for f in sorted(glob.glob('evidence/C*.json')):
    try: jsonschema.validate(json.load(open(f)),S)
    except Exception as e: print(f,'INVALID',str(e)[:200])
print('evidence files validated:',len(glob.glob('evidence/C*.json')))
PY
