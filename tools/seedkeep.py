#!/venv/bin/python
"""tools/seedkeep.py <sid> <property> [checks...]
Takes the uncommitted change a sub-agent left in /tmp/seed-<sid>, confirms on a scratch copy of /repo/PyXAB (outside
/repo and /verif) that (1) the demo passes without it, (2) fails with it, (3) the repository's tests still pass with it,
stores it as /verif/seeded/<sid>/ (patch.diff, demo, meta.json), runs the given checks (default: the owning one) against
the patched scratch copy and records which of them catch it.  With --rerun only the checks are re-run for a stored seed."""
import json, os, shutil, subprocess, sys, tempfile, time
HERE = os.path.dirname(os.path.dirname(os.path.realpath(__file__)))
PY = "/venv/bin/python"

def sh(cmd, cwd=None, env=None, timeout=1800, inp=None):
    return subprocess.run(cmd, cwd=cwd, env=env, capture_output=True, text=True, timeout=timeout, input=inp)

def scratch(patch=None):
    tmp = tempfile.mkdtemp(prefix="pyxab-seed-")
    shutil.copytree("/repo/PyXAB", os.path.join(tmp, "PyXAB"), ignore=shutil.ignore_patterns("__pycache__"))
    if patch:
        r = sh(["patch", "-p1", "-s"], cwd=tmp, inp=open(patch).read())
        if r.returncode != 0:
            raise SystemExit("patch does not apply: " + r.stdout + r.stderr)
    return tmp

def run_checks(sid, checks, tmp, seeds=(0,)):
    res = {}
    for c in checks:
        for s in seeds:
            t = time.time()
            r = sh([os.path.join(HERE, "check"), c, "--no-evidence", "--seed", str(s)], cwd=HERE, env=dict(os.environ, PYXAB_REPO=tmp))
            preds = sorted({l.split("violated predicate:")[1].split("|")[0].strip() for l in r.stdout.splitlines() if "violated predicate:" in l})
            verdict = {0: "MISSED", 1: "caught", 3: "inconclusive"}.get(r.returncode, str(r.returncode))
            res["%s/seed%d" % (c, s)] = {"verdict": verdict, "predicates": preds[:6], "seconds": round(time.time() - t, 1)}
            print("   %s seed=%d: %s %s" % (c, s, verdict, preds[:3]), flush=True)
    return res

def main():
    args = [a for a in sys.argv[1:] if not a.startswith("--")]
    rerun = "--rerun" in sys.argv
    sid = args[0]
    d = os.path.join(HERE, "seeded", sid)
    if rerun:
        meta = json.load(open(os.path.join(d, "meta.json")))
        checks = args[1:] or meta["checks_run"]
        tmp = scratch(os.path.join(d, "patch.diff"))
        try:
            seeds = tuple(int(x) for x in os.environ.get("SEEDKEEP_SEEDS", "0 1").split())
            meta["results"].update(run_checks(sid, checks, tmp, seeds=seeds))
        finally:
            shutil.rmtree(tmp, ignore_errors=True)
        meta["checks_run"] = sorted(set(meta["checks_run"]) | set(checks))
        json.dump(meta, open(os.path.join(d, "meta.json"), "w"), indent=1)
        return
    prop = args[1]
    checks = args[2:] or [prop]
    wt = "/tmp/seed-" + sid
    os.makedirs(d, exist_ok=True)
    diff = sh(["git", "-C", wt, "diff"]).stdout
    if not diff.strip():
        raise SystemExit("no uncommitted change in " + wt)
    open(os.path.join(d, "patch.diff"), "w").write(diff)
    demo = "demo_%s.py" % sid
    src = open(os.path.join(wt, demo)).read().replace(wt, "SCRATCH_DIR_NOT_USED")
    open(os.path.join(d, demo), "w").write(src)
    out = {}
    for label, patch in (("without", None), ("with", os.path.join(d, "patch.diff"))):
        tmp = scratch(patch)
        try:
            shutil.copy(os.path.join(d, demo), tmp)
            r = sh([PY, "-B", demo], cwd=tmp, env=dict(os.environ, PYTHONPATH=tmp), timeout=1200)
            out[label] = (r.returncode, (r.stdout + r.stderr)[-600:])
            if label == "with":
                t = sh([PY, "-m", "pytest", "-q", "-p", "no:cacheprovider", "--timeout=600", "PyXAB/tests"], cwd=tmp, env=dict(os.environ, PYTHONPATH=tmp))
                out["tests"] = (t.returncode, t.stdout.strip().splitlines()[-1] if t.stdout.strip() else "")
                results = run_checks(sid, checks, tmp)
        finally:
            shutil.rmtree(tmp, ignore_errors=True)
    ok = out["without"][0] == 0 and out["with"][0] != 0 and out["tests"][0] == 0
    print("demo without change: exit %d | with change: exit %d | tests with change: %s -> %s" % (out["without"][0], out["with"][0], out["tests"][1], "CONFIRMED" if ok else "NOT CONFIRMED"))
    meta = {"id": sid, "property": prop, "confirmed": ok,
            "what_was_run": ["scratch copy of /repo/PyXAB outside /repo and /verif; demo without the patch (exit %d), with the patch (exit %d); repository test-suite with the patch: %s" % (out["without"][0], out["with"][0], out["tests"][1]),
                             "checks run against the patched scratch copy via PYXAB_REPO=<scratch> ./check <id> (equivalent to applying the patch in /repo, without touching /repo)"],
            "demo_output_with_change": out["with"][1], "needs_to_manifest": "", "checks_run": checks, "results": results}
    json.dump(meta, open(os.path.join(d, "meta.json"), "w"), indent=1)
    if not ok:
        sys.exit(2)
main()
