#!/venv/bin/python
"""tools/floors.py [tier] [seeds...]: runs every check and reports observed / floor for each oracle floor (margin audit)"""
import ast, os, re, subprocess, sys, importlib
HERE = os.path.dirname(os.path.dirname(os.path.realpath(__file__)))
sys.path.insert(0, HERE); sys.path.insert(0, "/repo")
tier = sys.argv[1] if len(sys.argv) > 1 else "quick"
seeds = [int(x) for x in sys.argv[2:]] or [0, 1, 2]
for i in range(1, 18):
    pid = "C%02d" % i
    M = importlib.import_module("pyxabmon.props.c%02d" % i)
    floors = {k: (v[tier] if isinstance(v, dict) else v) for k, v in M.FLOOR.items()}
    worst = {}
    for s in seeds:
        r = subprocess.run([os.path.join(HERE, "check"), pid, "--tier", tier, "--no-evidence", "--seed", str(s)], capture_output=True, text=True, cwd=HERE)
        m = re.search(r"observed (\{.*?\}), max", r.stdout)
        obs = ast.literal_eval(m.group(1)) if m else {}
        for k, f in floors.items():
            ratio = obs.get(k, 0) / f
            worst[k] = min(worst.get(k, 1e9), ratio)
    print(pid, " ".join("%s=%.1fx" % (k, v) for k, v in worst.items()), flush=True)
