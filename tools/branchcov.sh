#!/bin/bash
# diagnostic: runs every quick check with branch events on (sys.monitoring BRANCH) and lists the conditional jumps of
# PyXAB's function bodies of which the union of all workloads took one direction only
cd "$(dirname "$0")/.."
OUT=${1:-/tmp/pyxab-branchcov}; mkdir -p $OUT
for i in $(seq -w 1 17); do PYXABMON_BRANCHCOV=1 PYXABMON_LINECOV_OUT=$OUT/C$i.json ./check C$i --no-evidence --tier ${TIER:-quick} 2>&1 | grep -E "VIOL|HELD|INCONC"; done
/venv/bin/python - $OUT <<'PY'
import json, glob, sys, collections
dst = collections.defaultdict(set)
for f in glob.glob(sys.argv[1] + "/C*.json"):
    for rel, s, d in json.load(open(f))["branches"]:
        dst[(rel, -s)].add(d)
one = sorted(k for k, v in dst.items() if len(v) == 1)
print("conditional jumps seen: %d, taken in one direction only: %d" % (len(dst), len(one)))
for rel, l in one:
    src = open("/repo/PyXAB/" + rel).read().split("\n")
    print("%s:%d -> only %s | %s" % (rel, l, sorted(dst[(rel, l)]), src[l - 1].strip()[:100]))
PY
