#!/venv/bin/python
"""replaces the table of seeded changes in DESIGN.md 7.5 by the output of tools/seedtable.py and updates the count"""
import os, re, subprocess, glob
HERE = os.path.dirname(os.path.dirname(os.path.realpath(__file__)))
tab = subprocess.run(["/venv/bin/python", os.path.join(HERE, "tools", "seedtable.py")], capture_output=True, text=True).stdout
tab = "\n".join(l for l in tab.splitlines() if l.startswith("|")) + "\n"
p = os.path.join(HERE, "DESIGN.md")
s = open(p).read()
a = s.index("| id | breaks | needs in order to manifest |")
b = s.index("### 7.6")
s = s[:a] + tab + "\n" + s[b:]
n = len(glob.glob(os.path.join(HERE, "seeded", "*", "meta.json")))
s = re.sub(r"\d+ changes in \w+ batches", "%d changes in fifteen batches" % n, s, count=1)
open(p, "w").write(s)
print("table rows:", tab.count("\n") - 2, "changes:", n)
