#!/bin/bash
# tools/sweep.sh <tier> <seed...> : runs all checks for the given tier and seeds without writing evidence
cd "$(dirname "$0")/.."
TIER=$1; shift
for sd in "$@"; do for i in $(seq -w 1 17); do
  s=$(date +%s); out=$(VERIF_SEED=$sd ./check C$i --tier $TIER --no-evidence 2>&1); rc=$?; e=$(date +%s)
  echo "seed=$sd C$i rc=$rc $((e-s))s $(echo "$out" | grep -E 'VIOLATION|INCONCLUSIVE|HELD|violated predicate' | head -4 | tr '\n' ' ' | cut -c1-600)"
done; done
