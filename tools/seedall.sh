#!/bin/bash
# re-runs every stored seeded change against its owning check (seeds 0 and 1) with the current machinery
cd "$(dirname "$0")/.."
for d in seeded/*/; do id=$(basename $d); prop=$(/venv/bin/python -c "import json;print(json.load(open('$d/meta.json'))['property'])"); echo "== $id $prop"; tools/seedkeep.py --rerun $id $prop 2>&1 | grep -v conda; done
