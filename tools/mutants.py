#!/venv/bin/python
"""Mutation trial: applies single-site breaks to a scratch copy of /repo/PyXAB (outside /repo and /verif, removed
afterwards) and runs the owning checks against it (PYXAB_REPO=<scratch>).  Also reverts each 'fix:' commit.
usage: tools/mutants.py [name-substring ...]   (results appended to tools/mutants_last.txt)"""
import os, shutil, subprocess, sys, tempfile, time
HERE = os.path.dirname(os.path.dirname(os.path.realpath(__file__)))
A = "PyXAB/algos/"; P = "PyXAB/partition/"
# (name, file, old, new, [checks expected to fire], occurrence index or None for unique)
M = [
 ("node_centre_lo_plus_half_hi", P+"Node.py", "point.append((x[0] + x[1]) / 2)", "point.append(x[0] + x[1] / 2)", ["C01", "C02", "C16"]),
 ("bin_mid_shifted", P+"BinaryPartition.py", "domain2[dim] = [(selected_dim[0] + selected_dim[1]) / 2, selected_dim[1]]", "domain2[dim] = [(selected_dim[0] + selected_dim[1]) / 2 + (selected_dim[1]-selected_dim[0])*1e-9, selected_dim[1]]", ["C02"]),
 ("rkary_last_not_pinned", P+"RandomKaryPartition.py", "                boundary_point_1 = selected_dim[1]\n", "                boundary_point_1 = np.random.uniform(boundary_point_0, selected_dim[1])\n", ["C02"]),
 ("kary_linspace_num_K", P+"KaryPartition.py", "num=self.K + 1)", "num=self.K + 2)[:-1]", ["C02"]),
 ("dimbin_reverse_dropped_dimension_order", P+"DimensionBinaryPartition.py", "            domain.reverse()\n", "", ["C02"]),
 ("kary_index_formula", P+"KaryPartition.py", "index=self.K * parent.get_index() - (self.K - i - 1)", "index=self.K * parent.get_index() - (self.K - i)", ["C03"]),
 ("bin_index_formula", P+"BinaryPartition.py", "index=2 * parent.get_index() - 1", "index=2 * parent.get_index() + 1", ["C03"]),
 ("dimbin_depth_not_incremented", P+"DimensionBinaryPartition.py", "            self.depth += 1\n", "            pass\n", ["C03"]),
 ("hoo_expand_newlayer_inverted", A+"HOO.py", "        if parent.get_depth() >= self.partition.get_depth():", "        if parent.get_depth() < self.partition.get_depth():", ["C03", "C01"]),
 ("hct_updates_whole_path", A+"HCT.py", "        node = path[-1]\n\n        # Update the visited times and the average reward of the pulled node\n\n        node.update_reward(reward)", "        for node in path:\n            node.update_reward(reward)", ["C04"]),
 ("hoo_updates_only_leaf", A+"HOO.py", "        for node in path:\n            # Update the visited times and the average reward of the pulled node\n            node.update_reward(reward)", "        path[-1].update_reward(reward)", ["C04"]),
 ("hoo_width_sign", A+"HOO.py", "self.u_value = self.mean_reward + UCB + nu * (rho ** self.depth)", "self.u_value = self.mean_reward - UCB + nu * (rho ** self.depth)", ["C05"]),
 ("hct_rho_depth_plus_1", A+"HCT.py", "+ nu * (rho ** self.get_depth())", "+ nu * (rho ** (self.get_depth() + 1))", ["C05"]),
 ("hoo_2log_to_log", A+"HOO.py", "UCB = math.sqrt(2 * math.log(rounds) / self.visited_times)", "UCB = math.sqrt(math.log(rounds) / self.visited_times)", ["C05"]),
 ("hct_backward_minmax_swapped", A+"HCT.py", "node.update_b_value(np.minimum(node.get_u_value(), tempB))", "node.update_b_value(np.maximum(node.get_u_value(), tempB))", ["C05"]),
 ("vhct_backward_skips_deepest", A+"VHCT.py", "        for i in range(1, self.partition.get_depth() + 1):\n            layer = nodes[-i]\n            for node in layer:\n                children = node.get_children()", "        for i in range(2, self.partition.get_depth() + 1):\n            layer = nodes[-i]\n            for node in layer:\n                children = node.get_children()", ["C05"]),
 ("hct_no_refresh_at_pow2", A+"HCT.py", "        if self.iteration == compute_t_plus(self.iteration):", "        if False:", ["C05"]),
 ("hoo_traverse_le", A+"HOO.py", "                if child.get_b_value() >= maxchild.get_b_value():", "                if child.get_b_value() <= maxchild.get_b_value():", ["C05"]),
 ("hct_threshold_test_dropped", A+"HCT.py", "            curr_node.get_visited_times() >= self.tau_h[curr_node.get_depth()]\n            and curr_node.get_children() is not None", "            curr_node.get_children() is not None", ["C05"]),
 ("vhct_const_3_to_2", A+"VHCT.py", "                + 3 * bound * c ** 2 * math.log(1 / delta_tilde) / self.visited_times", "                + 2 * bound * c ** 2 * math.log(1 / delta_tilde) / self.visited_times", ["C05"]),
 ("hoo_truncation_lt", A+"HOO.py", "        if path[-1].depth <= np.ceil(", "        if path[-1].depth < np.ceil(", ["C06"]),
 ("hoo_truncation_no_ceil", A+"HOO.py", "        if path[-1].depth <= np.ceil(\n            (np.log(self.rounds) / 2 - np.log(1 / self.nu)) / np.log(1 / self.rho)\n        ):", "        if path[-1].depth <= (\n            (np.log(self.rounds) / 2 - np.log(1 / self.nu)) / np.log(1 / self.rho)\n        ):", ["C06"]),
 ("hct_expand_gt", A+"HCT.py", "            and end_node.get_visited_times() >= self.tau_h[en_depth]", "            and end_node.get_visited_times() > self.tau_h[en_depth]", ["C06"]),
 ("vhct_var_no_floor", A+"VHCT.py", "        self.variance = np.maximum(self.variance, self.minvariance)\n", "", ["C04"]),
 ("hct_time_label_used", A+"HCT.py", "        self.curr_node, self.path = self.optTraverse()", "        self.iteration = max(self.iteration, time)\n        self.curr_node, self.path = self.optTraverse()", ["C15", "C05"]),
 ("poo_n_plus_N_dropped", A+"POO.py", "                self.n = self.n + self.N\n", "                pass\n", ["C10"]),
 ("poo_times_not_incremented", A+"POO.py", "            self.Times[self.algo_counter] += 1\n", "", ["C10"]),
 ("poo_reward_to_last_in_round_robin", A+"POO.py", "            self.V_algo[self.algo_counter].receive_reward(time, reward)", "            self.V_algo[-1].receive_reward(time, reward)", ["C10", "C04"]),
 ("poo_exponent", A+"POO.py", "rho = self.rhomax ** (2 * self.N / (2 * self.phase + 1))", "rho = self.rhomax ** (2 * self.N / (2 * self.phase + 2))", ["C10"]),
 ("gpo_exponent", A+"GPO.py", "rho = self.rhomax ** (2 * self.N / (2 * self.phase + 1))", "rho = self.rhomax ** (2 * self.N / (2 * self.phase))", ["C09"]),
 ("gpo_floor_to_ceil", A+"GPO.py", "self.half_phase_length = np.floor(self.rounds / (2 * self.N))", "self.half_phase_length = np.ceil(self.rounds / (2 * self.N))", ["C09"]),
 ("gpo_val_mean_H_plus_1", A+"GPO.py", ") / (self.counter - self.half_phase_length + 1)", ") / (self.counter - self.half_phase_length + 2)", ["C09", "C04"]),
 ("gpo_argmin", A+"GPO.py", "        return self.V_x[np.argmax(np.array(self.V_reward))]", "        return self.V_x[np.argmin(np.array(self.V_reward))]", ["C07", "C09"]),
 ("doo_last_le", A+"DOO.py", "                if node.visited and reward >= max_value:", "                if node.visited and reward <= max_value:", ["C07", "C01"]),
 ("soo_default_reward_0", A+"SOO.py", "        self.reward = -np.inf", "        self.reward = 0", ["C07", "C04"]),
 ("sequool_argmax_chosen_minus_last", A+"SequOOL.py", "        for node in self.chosen:\n            if node.get_reward() >= max_value:", "        for node in self.chosen[:-1]:\n            if node.get_reward() >= max_value:", ["C07"]),
 ("stosoo_last_depth_minus_1", A+"StoSOO.py", "        max_depth = self.partition.get_depth()\n", "        max_depth = self.partition.get_depth() - 1\n", ["C07"]),
 ("soo_max_search_le", A+"SOO.py", "                            node.get_reward() >= max_value", "                            node.get_reward() <= max_value", ["C01"]),
 ("stosoo_k_cap_le", A+"StoSOO.py", "                        if node_list[h][max_b_node_ind].get_visited_times() < self.k:", "                        if node_list[h][max_b_node_ind].get_visited_times() <= self.k:", ["C08"]),
 ("stosoo_width_2T_to_T", A+"StoSOO.py", "np.log(n * k / delta) / (2 * self.visited_times)", "np.log(n * k / delta) / (self.visited_times)", ["C08"]),
 ("zoom_index_no_factor_2", A+"Zooming.py", "            arm_r_t = self.average_rewards[arm] + 2 * np.sqrt(", "            arm_r_t = self.average_rewards[arm] + np.sqrt(", ["C11"]),
 ("zoom_phase_never_incremented", A+"Zooming.py", "            self.phase += 1\n", "            pass\n", ["C11"]),
 ("zoom_refine_ge", A+"Zooming.py", "            <= self.nu * self.rho ** parent.get_depth()", "            >= self.nu * self.rho ** parent.get_depth()", ["C11"]),
 ("sequool_budget_plus_1", A+"SequOOL.py", "                            self.budget = math.floor(self.h_max / self.curr_depth)\n                        self.curr_node = max_node.get_children()[-1]", "                            self.budget = math.floor(self.h_max / self.curr_depth) + 1\n                        self.curr_node = max_node.get_children()[-1]", ["C12"]),
 ("sequool_argmin", A+"SequOOL.py", "                        if node.get_reward() >= max_value:\n                            max_value = node.get_reward()\n                            max_node = node\n\n                if max_node.get_children() is None:", "                        if -node.get_reward() >= max_value:\n                            max_value = -node.get_reward()\n                            max_node = node\n\n                if max_node.get_children() is None:", ["C12"]),
 ("vroom_rank_not_reversed", A+"VROOM.py", "        rank = sorted(nodes, key=rank_fun, reverse=True)", "        rank = sorted(nodes, key=rank_fun)", ["C13"]),
 ("vroom_prob_no_h", A+"VROOM.py", "self.prob.append(1 / (h * node_list[h][l].get_rank()[-1] * self.const))", "self.prob.append(1 / (node_list[h][l].get_rank()[-1] * self.const))", ["C13", "C01"]),
 ("vroom_descent_not_updating", A+"VROOM.py", "            node = node.get_children()[sign]\n            self.update_list.append(node)", "            self.update_list.append(node.get_children()[sign])", ["C13", "C04"]),
 ("vroom_sample_beyond_hi", A+"VROOM.py", "            point = np.random.uniform(domain[0], domain[1])", "            point = np.random.uniform(domain[0], domain[1] + (domain[1] - domain[0]))", ["C01", "C13"]),
 ("doo_default_delta_uses_point", A+"DOO.py", "                    (domain[0][0] - point) ** 2, (domain[0][1] - point) ** 2\n                )", "                    (domain[0][0] - point) ** 2, (point) ** 2\n                )", ["C16", "C08"]),
 ("random_module_for_split_dim", P+"BinaryPartition.py", "        dim = np.random.randint(0, len(parent_domain))", "        import random\n        dim = random.randrange(len(parent_domain))", ["C14"]),
 ("user_box_normalised_in_place", P+"Partition.py", "        self.domain = domain\n", "        for i in range(len(domain)):\n            domain[i] = [float(domain[i][0]), float(domain[i][1])]\n        self.domain = domain\n", ["C14"]),
 ("soo_equivalent_vmax_dropped_note", A+"SOO.py", "                if max_value >= v_max:", "                if max_value >= v_max or True:", []),
]
# refactors that do NOT break any property: every listed check must stay silent (exit 0) or inconclusive, never VIOLATION
BENIGN = [
 ("benign_hct_pull_returns_a_copy", A+"HCT.py", "        return self.curr_node.get_cpoint()", "        return list(self.curr_node.get_cpoint())", ["C04", "C05", "C06", "C01", "C15"]),
 ("benign_hoo_tie_break_first_max", A+"HOO.py", "                if child.get_b_value() >= maxchild.get_b_value():", "                if child.get_b_value() > maxchild.get_b_value():", ["C05", "C04", "C06"]),
 ("benign_soo_last_point_copy", A+"SOO.py", "        return max_node.get_cpoint()", "        return list(max_node.get_cpoint())", ["C07", "C01"]),
 ("benign_partition_copies_layer_list", P+"BinaryPartition.py", "            self.node_list.append(new_deepest)", "            self.node_list.append(list(new_deepest))", ["C03", "C02"]),
 ("benign_zooming_dict_copy_iteration", A+"Zooming.py", "        for arm in self.active_points.keys():", "        for arm in list(self.active_points.keys()):", ["C11", "C04"]),
 ("benign_stosoo_mean_cached_recompute", A+"StoSOO.py", "            self.mean_reward = np.sum(np.array(self.rewards)) / self.visited_times\n            self.b_value", "            self.mean_reward = float(np.mean(self.rewards))\n            self.b_value", ["C08", "C04"]),
]
FIXES = [("revert_D1_aliasing", "3390a7d", ["C03", "C04", "C05"]), ("revert_D2_reexpand", "6954983", ["C03", "C04", "C06"]),
         ("revert_D3_doo_delta", "d9fdcc2", ["C01"]), ("revert_D4_doo_newlayer", "d0c5d08", ["C03", "C08"]),
         ("revert_D5_doo_last", "04672b9", ["C07"]), ("revert_D6_zooming", "2f2c69a", ["C11"]),
         ("revert_D7_gpo", "f1f4504", ["C09", "C04", "C01"]), ("revert_D8_poo", "f16bd14", ["C01"]),
         ("revert_D13_kary_subnormal", "076784f", ["C02"])]

def available():
    return {f[:-3].upper() for f in os.listdir(os.path.join(HERE, "pyxabmon", "props")) if f.startswith("c") and f.endswith(".py")}

def run(name, prep, checks, log):
    tmp = tempfile.mkdtemp(prefix="pyxab-mut-")
    try:
        shutil.copytree("/repo/PyXAB", os.path.join(tmp, "PyXAB"), ignore=shutil.ignore_patterns("__pycache__"))
        if not prep(tmp):
            log("%-40s PATCH-FAILED" % name); return
        r = subprocess.run(["true"] if os.environ.get("MUT_SKIP_TESTS") else ["/venv/bin/python", "-m", "pytest", "-q", "-x", "-p", "no:cacheprovider", "--timeout=60", "PyXAB/tests"], cwd=tmp, capture_output=True, text=True, env=dict(os.environ, PYTHONPATH=tmp))
        tests = "tests-pass" if r.returncode == 0 else "TESTS-FAIL"
        res = []
        for c in checks:
            if c not in available(): res.append(c + "=n/a"); continue
            t = time.time()
            r = subprocess.run([os.path.join(HERE, "check"), c, "--no-evidence"], cwd=HERE, capture_output=True, text=True, env=dict(os.environ, PYXAB_REPO=tmp, VERIF_REPLAY_DIR=tmp))
            preds = sorted({l.split("violated predicate:")[1].split("|")[0].strip() for l in r.stdout.splitlines() if "violated predicate:" in l})
            res.append("%s=%s(%ds)%s" % (c, {0: "MISSED", 1: "caught", 3: "inconclusive"}.get(r.returncode, r.returncode), time.time() - t, (" " + ",".join(preds)[:150]) if preds else ""))
        log("%-40s %s  %s" % (name, tests, "  ".join(res)))
    finally:
        shutil.rmtree(tmp, ignore_errors=True)

def main():
    sel = sys.argv[1:]
    out = open(os.path.join(HERE, "tools", "mutants_last.txt"), "a")
    def log(s):
        print(s, flush=True); out.write(s + "\n"); out.flush()
    log("# %s  selection=%s" % (time.strftime("%F %T"), sel))
    for name, f, old, new, checks in M:
        if sel and not any(s in name or s in checks for s in sel): continue
        def prep(tmp, f=f, old=old, new=new):
            p = os.path.join(tmp, f); s = open(p).read()
            if s.count(old) < 1: return False
            open(p, "w").write(s.replace(old, new, 1)); return True
        run(name, prep, checks, log)
    for name, f, old, new, checks in BENIGN:
        if sel and not any(s in name for s in sel): continue
        def prep(tmp, f=f, old=old, new=new):
            p = os.path.join(tmp, f); s = open(p).read()
            if s.count(old) < 1: return False
            open(p, "w").write(s.replace(old, new, 1)); return True
        run(name, prep, checks, log)
    for name, commit, checks in FIXES:
        if sel and not any(s in name or s in checks for s in sel): continue
        def prep(tmp, commit=commit):
            d = subprocess.run(["git", "-C", "/repo", "show", commit], capture_output=True, text=True).stdout
            r = subprocess.run(["patch", "-R", "-p1", "-s"], input=d, text=True, cwd=tmp, capture_output=True)
            return r.returncode == 0
        run(name, prep, checks, log)
main()
