#!/venv/bin/python
"""writes /verif/MANIFEST.json from the table below (so the file is always schema-valid) and validates it"""
import json, os, subprocess, sys
HERE = os.path.dirname(os.path.dirname(os.path.realpath(__file__)))
ALL = ["C%02d" % i for i in range(1, 18)]
CHECKS = {
 "C01": dict(technique="runtime monitoring: API-boundary oracle on every pull/receive_reward/get_last_point of the real loop + sys.monitoring logical step budget + injected RNG end-point outcomes",
             text="Exploration by execution: the real ask/tell loop is driven for hundreds (quick) to tens of thousands (thorough) of generated configurations x histories; every returned point is checked against the user's box, every exception and every call exceeding the logical step budget is a violation. Totality over an infinite configuration space cannot be established by running; the evidence says what was run.",
             note="Trusted: NumPy, CPython, the harness driver. Assumes boxes with |lo+hi|<=1e300, SOO/StoSOO caps = smallest cap holding the budget, known findings matched by mechanism (known_findings.json).", ref="DESIGN.md 4/C01"),
}
def main():
    checks = []
    for pid in ALL:
        if pid not in CHECKS: continue
        c = CHECKS[pid]
        checks.append({
            "property_id": pid,
            "quick_cmd": "./check %s --tier quick" % pid,
            "thorough_cmd": "./check %s --tier thorough" % pid,
            "evidence_file": "evidence/%s.json" % pid,
            "replay_cmd_template": "./check %s --replay {path}" % pid,
            "engine": "pyxabmon",
            "level_claimed": {"category": "exploration", "text": c["text"], "design_ref": c["ref"]},
            "level_note": c["note"],
            "technique": c["technique"],
        })
    na = [{"property_id": p, "reason": "check not built yet (work in progress; see DESIGN.md 4 for the planned monitor)"} for p in ALL if p not in CHECKS]
    m = {
        "version": 1,
        "setup_cmd": "./setup.sh",
        "hooks": {"guard": "PYXAB_VERIF", "enable": "none needed: the monitors inject instrumented subclasses of the real partition / base-learner classes and wrap NumPy's global RNG from outside; /repo is imported as-is (PYTHONPATH=/repo)", "baseline_off_cmd": "cd /repo && /venv/bin/python -m pytest -q -p no:cacheprovider --timeout=900", "source_commits": [], "add_only": True},
        "engines": [{"name": "pyxabmon", "path": "pyxabmon/", "serves_properties": [c["property_id"] for c in checks], "kind_free_text": "runtime monitors (API-boundary ledger, instrumented partition subclasses, recording base learners, reference models recomputed from the history, metamorphic twin runs, sys.monitoring step budget, icontract contracts) over generated hostile workloads of the real code in /repo"}],
        "checks": checks,
        "notes": "Verdicts are three-valued: exit 0 held on what was observed, exit 1 VIOLATION (unlisted), exit 3 INCONCLUSIVE (oracle floor not reached / watchdog). Genuine defects repaired in /repo as 'fix:' commits and recorded in known_findings.json; open findings matched by mechanism.",
        "not_applicable": na,
    }
    json.dump(m, open(os.path.join(HERE, "MANIFEST.json"), "w"), indent=1)
    r = subprocess.run(["python3-vt", "-c", "import json,jsonschema,sys; jsonschema.validate(json.load(open(sys.argv[1])), json.load(open('/root/.vp/MANIFEST.schema.json'))); print('MANIFEST valid')", os.path.join(HERE, "MANIFEST.json")])
    sys.exit(r.returncode)
main()
