#!/venv/bin/python
"""writes /verif/MANIFEST.json from the table below (so the file is always schema-valid) and validates it"""
import json, os, subprocess, sys
HERE = os.path.dirname(os.path.dirname(os.path.realpath(__file__)))
ALL = ["C%02d" % i for i in range(1, 18)]
def E(technique, text, note, ref):
    return dict(technique=technique, text=text, note=note, ref=ref)
COMMON_NOTE = " Trusted base: CPython, NumPy, the pyxabmon harness (driver, ledger, reference models). Open findings are matched by mechanism against known_findings.json."
CHECKS = {
 "C01": E("runtime monitoring: API-boundary oracle on every pull/receive_reward/get_last_point of the real loop + sys.monitoring logical step budget + injected RNG end-point outcomes + recommendation probes at intermediate stopping times on deep copies + parameter draws at the far corners of the documented ranges + declared budgets up to 40000",
          "Exploration by execution: the real ask/tell loop is driven for hundreds (quick) to tens of thousands (thorough) of generated configurations x histories; every returned point is checked against the user's box, every exception and every call exceeding the logical step budget is a violation. Totality over an infinite configuration space cannot be established by running; the evidence says what was run.",
          "Assumes boxes with |lo+hi|<=1e300, SOO/StoSOO caps = smallest cap holding the budget." + COMMON_NOTE, "DESIGN.md 4/C01"),
 "C02": E("runtime monitoring: bit-exact tiling oracle at every make_children (instrumented subclasses + icontract post-condition on the real method), hostile float boxes (adjacent floats, subnormal/ulp grids, aliased interval lists), K up to 64, injected RNG outcomes, companion partitions of the same class alive and growing in between, leaf-tiling walker",
          "Every split performed in partition-only histories on adversarial float boxes and inside runs of every algorithm is checked bit-exactly (containment, shared boundaries, outer faces, arity, equal widths, centres) and the leaves of every final tree are checked to tile the root. Sampled floats, not the continuum.",
          "Equal-width tolerance 4 ulp; |lo+hi|<=1e300." + COMMON_NOTE, "DESIGN.md 4/C02"),
 "C03": E("runtime monitoring: structural invariant walker at quiescent points (after every partition operation / receive_reward / get_last_point) + icontract class invariant on the real partition class; companion partitions of the same class alive and growing in between",
          "The tree<->index invariants are re-checked by a walker after every operation of random deepen/make_children interleavings and after every round of runs of all algorithms (every partition a run creates, incl. base learners of POO/GPO).",
          "Only generated histories; aliasing is judged by its observable consequence." + COMMON_NOTE, "DESIGN.md 4/C03"),
 "C04": E("runtime monitoring: client-side ledger (point identity -> cell) vs. per-cell statistics after every round; recording subclasses of base learners inside POO/GPO; np.random.choice interception for VROOM",
          "History + executable reference model: the harness records which cell every pull returned and which reward followed; after EVERY round the counts, reward lists, means and variances of all cells reachable from the root (arms, learner scores) must equal those recomputed from the ledger. Exploration over generated histories of all algorithm families.",
          "Means rel. 1e-9; rounds after an algorithm's own termination are known findings." + COMMON_NOTE, "DESIGN.md 4/C04"),
 "C05": E("runtime monitoring: reference model of U/B/thresholds recomputed from the ledger after every round, greedy-path oracle at every pull, long-horizon runs crossing 2^14/2^15",
          "Every U-value is compared with the published formula recomputed from the raw history, every non-root B with the min/max recursion and every pulled cell's root path with the max-B / threshold rule, after every round of thousands of T-HOO/HCT/VHCT runs (stand-alone and inside the wrappers).",
          "HCT/VHCT judged in the band c1*delta<=1/2; two admissible t+ conventions; three-valued threshold comparisons at rel. 1e-9." + COMMON_NOTE, "DESIGN.md 4/C05"),
 "C06": E("runtime monitoring: make_children events (phase, cell, was-leaf) + expansion rule recomputed from the ledger",
          "Every expansion event of the tree bandits is judged (only in receive_reward, at most one, under the pulled cell, a leaf, children fresh) and every round's expand/not-expand decision is compared with the published rule recomputed from the ledger.",
          "Same band and conventions as C05." + COMMON_NOTE, "DESIGN.md 4/C06"),
 "C07": E("runtime monitoring: ledger of (cell, reward) vs. the cell returned by get_last_point (identity), recording learners for POO/GPO",
          "The recommendation of DOO/SOO/SequOOL/StoSOO/StroquOOL/POO/GPO/PCT/VPCT is compared with the best candidate recomputed from the ledger on workloads that over-weight negative, tied, monotone and best-first/best-last reward sequences; also queried mid-run (sparsely in half of the runs, after every round in the other half) and, for DOO/SOO/StoSOO, while an evaluation is pending (those answers are not judged, the later ones are).",
          "Ties accept any maximiser; early stops where get_last_point raises are C01 findings." + COMMON_NOTE, "DESIGN.md 4/C07"),
 "C08": E("runtime monitoring: pre-split snapshots of tree+ledger at every make_children, hand-out oracle at every pull, tight and sufficient depth caps, hostile environment that chooses rewards so that b-values tie bit for bit",
          "Every expansion and every hand-out of SOO/StoSOO/DOO is judged against the tree and the ledger as they were at that moment (evaluated, best of depth / of all leaves, no unevaluated predecessor, within the cap, at most k evaluations, first unevaluated leaf top-down / max-b leaf).",
          "DOO default delta recomputed from cell boxes; b-values rel. 1e-9." + COMMON_NOTE, "DESIGN.md 4/C08"),
 "C09": E("runtime monitoring: recording subclass of the base learner + reference schedule; complete enumeration of (n, rhomax) grid with a stub learner",
          "The trace of constructor calls / pulls / rewards per learner, returned point objects and validation scores of GPO/PCT/VPCT must equal the published schedule; the schedule is enumerated completely over every n in a range x a rhomax grid with an O(1) stub learner, and sampled with the real learners; stub budgets up to 20000 rounds (half-phase lengths up to several thousand).",
          "Near-integer N skipped as ambiguous; H==0 is a C01 finding." + COMMON_NOTE, "DESIGN.md 4/C09"),
 "C10": E("runtime monitoring: recording subclass of the base learner, per-learner ledger vs V_reward/Times after every round",
          "Per round exactly one base pull and one base receive_reward on the same learner with the same reward; learners only appended with numax and fresh grid rho; scores and counts equal ledger means and counts after every round; get_last_point = proposal of a best-scoring learner. Stub-learner horizons up to 20000 plus real learners.",
          "Grid membership over N in {2..65536}." + COMMON_NOTE, "DESIGN.md 4/C10"),
 "C11": E("runtime monitoring: arm->cell table walked after every round (coverage), index/refinement oracle from ledger + reference phase schedule",
          "After construction and every round every arm must lie in its cell and every leaf must be covered by an active cell; every pull must maximise the published index, every refinement decision must follow the radius rule and leave each child with exactly one arm. Midpoint-split partitions over-weighted.",
          "Three-valued radius comparison at rel. 1e-9." + COMMON_NOTE, "DESIGN.md 4/C11"),
 "C12": E("runtime monitoring: make_children = 'open' events judged against the ledger, hand-out order oracle, post-exhaustion behaviour",
          "Every open of SequOOL is judged (root first, depth by depth, harmonic budget, best unopened cell, all evaluated) and every hand-out must be the next child of the opened cell; after exhaustion the root centre is returned and the recommendation object is stable.",
          "n/H_n near an integer: budget clauses not judged." + COMMON_NOTE, "DESIGN.md 4/C12"),
 "C13": E("runtime monitoring: interception of the single np.random.choice call per pull (arguments + outcome), get_rank() read-out, credited-chain observation, pooled frequency monitor over the drawn cells of all pulls (depth, rank and position buckets against the published probabilities, 6.5 sigma)",
          "Per pull: support, rank permutation, monotonicity in the ledger LCB, p == 1/(h r C) element-wise, sum 1; per round: credited cells form a chain from the drawn cell to the cap, point inside drawn and deepest cell; over the whole run: the drawn cells (taken from the credit, so also when the draw is not made through np.random.choice) are pooled per depth, rank bucket and position and compared with the sums of the published probabilities.",
          "Pulls in which the harness injected an RNG end-point outcome are left out of the pool; buckets with variance < 25 are not judged." + COMMON_NOTE, "DESIGN.md 4/C13"),
 "C14": E("runtime monitoring (metamorphic): twin runs in-process and in fresh interpreters with other PYTHONHASHSEED, entropy/clock call counters, interleaved instances vs solo runs, sandwich runs (X, other instance of the class, X) and warm-process vs fresh-interpreter digests, input box fingerprint (incl. sides written [hi, lo]), aliased-vs-separate side lists, process-wide settings fingerprint",
          "Two executions that must agree: same case twice (bit-identical), fresh processes with different hash seeds (digest), two instances interleaved by random schedules vs their solo runs; plus counters of calls from PyXAB code into foreign entropy/clock sources and before/after comparison of the user's box.",
          "Interleaving of RNG-consuming configurations saves/restores NumPy's global state per instance." + COMMON_NOTE, "DESIGN.md 4/C14"),
 "C15": E("runtime monitoring (metamorphic): runs differing only in time labels / inserted get_last_point calls must be bit-identical",
          "Base run vs runs with other time labels (offsets 0/17/1e6, doubled, random increasing) for the 17 anytime variants and vs runs with recommendation queries inserted for T-HOO/HCT/VHCT/Zooming/POO (incl. a slice of POO runs on RNG-consuming partitions with noisy rewards and a query after every round).",
          "Open-loop rewards." + COMMON_NOTE, "DESIGN.md 4/C15"),
 "C16": E("runtime monitoring (metamorphic): run on box D vs run on s*D+b, exact tier (bit for bit) and tolerance tier (1e-9)",
          "Exact tier: dyadic boxes, power-of-two scaling, dyadic translation on the midpoint partitions, compared bit for bit while coordinates stay exactly representable; tolerance tier: arbitrary positive scaling and translation on all partitions.",
          "VROOM and deep cells only in the tolerance tier; DOO default delta translation only." + COMMON_NOTE, "DESIGN.md 4/C16"),
 "C17": E("runtime monitoring: sampling oracle on the real f (uniform + float neighbours of maximisers / discontinuities / end points), purity, container (tuple / ndarray / ints) and wrong-dimension probes",
          "Millions of evaluations of every objective on its documented domain: finite and <= fmax (exact comparison), fmax attained at the maximiser, Garland's gap < 0.003, pure, inputs and attributes untouched, wrong dimension -> ValueError, an exception on a point of the documented closed domain is a violation. Sampling can refute the bound, never establish it over the continuum.",
          "Sampled floats only." + COMMON_NOTE, "DESIGN.md 4/C17"),
}
def main():
    checks = []
    for pid in ALL:
        if pid not in CHECKS: continue
        c = CHECKS[pid]
        checks.append({
            "property_id": pid,
            "quick_cmd": "./check %s --tier quick" % pid,
            "thorough_cmd": "./check %s --tier thorough" % pid,
            "evidence_file": "evidence/%s.json" % pid,
            "replay_cmd_template": "./check %s --replay {path}" % pid,
            "engine": "pyxabmon",
            "level_claimed": {"category": "exploration", "text": c["text"], "design_ref": c["ref"]},
            "level_note": c["note"],
            "technique": c["technique"],
        })
    na = [{"property_id": p, "reason": "check not built yet"} for p in ALL if p not in CHECKS]
    m = {
        "version": 1,
        "setup_cmd": "./setup.sh",
        "hooks": {"guard": "PYXAB_VERIF", "enable": "none needed: the monitors inject instrumented subclasses of the real partition / base-learner classes and wrap NumPy's global RNG from outside; /repo is imported as-is (PYTHONPATH=/repo)", "baseline_off_cmd": "cd /repo && /venv/bin/python -m pytest -q -p no:cacheprovider --timeout=900", "source_commits": [], "add_only": True},
        "engines": [{"name": "pyxabmon", "path": "pyxabmon/", "serves_properties": [c["property_id"] for c in checks], "kind_free_text": "runtime monitors (API-boundary ledger, instrumented partition subclasses, recording base learners, reference models recomputed from the history, metamorphic twin runs, sys.monitoring step budget, icontract contracts) over generated hostile workloads of the real code in /repo"}],
        "checks": checks,
        "notes": "Verdicts are three-valued: exit 0 held on what was observed, exit 1 VIOLATION (unlisted), exit 3 INCONCLUSIVE (oracle floor not reached / watchdog). Genuine defects repaired in /repo as 'fix:' commits and recorded in known_findings.json; open findings matched by mechanism.",
        "not_applicable": na,
    }
    json.dump(m, open(os.path.join(HERE, "MANIFEST.json"), "w"), indent=1)
    r = subprocess.run(["python3-vt", "-c", "import json,jsonschema,sys; jsonschema.validate(json.load(open(sys.argv[1])), json.load(open('/root/.vp/MANIFEST.schema.json'))); print('MANIFEST valid')", os.path.join(HERE, "MANIFEST.json")])
    sys.exit(r.returncode)
main()
