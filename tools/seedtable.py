#!/venv/bin/python
"""prints the markdown table of seeded changes for DESIGN.md 7.5 from seeded/*/meta.json (latest verdict per check)"""
import glob, json, os
HERE = os.path.dirname(os.path.dirname(os.path.realpath(__file__)))
print("| id | breaks | needs in order to manifest | verdict of the checks run against it (latest run, seeds 0/1) |")
print("|---|---|---|---|")
for d in sorted(glob.glob(os.path.join(HERE, "seeded", "*", "meta.json"))):
    m = json.load(open(d))
    by = {}
    for k, v in m["results"].items():
        c, sd = k.split("/")
        by.setdefault(c, {})[sd] = v["verdict"]
    cells = []
    for c, vs in sorted(by.items()):
        vals = [vs[k] for k in sorted(vs)]
        if len(vals) > 1 and "seed1" in vs:
            vals = [vs["seed0"], vs["seed1"]]  # the rerun after strengthening covers seeds 0 and 1
        cells.append("%s %s" % (c, "caught" if all(x == "caught" for x in vals) else "/".join(vals)))
    need = m["needs_to_manifest"].replace("|", "\\|")
    print("| %s | %s | %s | %s |" % (m["id"], m["property"], need, "; ".join(cells)))
