"""Plain (un-instrumented) runs used by the metamorphic monitors C14 / C15 / C16: two executions of the real code
that must agree."""
import copy
import hashlib
import json
import math
import os
import signal

import numpy as np

from . import common as C
from .driver import Watchdog, _alarm, labels_of


def affine_box(box, s, b):
    return [[s * lo + bj, s * hi + bj] for (lo, hi), bj in zip(box, b)]


def poison_heap(value):
    """fills NumPy's small-block cache with freed blocks that hold `value` (nan / inf / 0): an implementation that
    reads memory from np.empty before writing it behaves differently after different poisons"""
    keep = []
    for _ in range(3):
        for nbytes in list(range(8, 1032, 8)):
            keep.append(np.full(nbytes // 8, value, dtype=float))
        keep.clear()


def process_state():
    """process-wide settings a library has no business changing: NumPy's floating-point error handling and print
    options, the recursion limit, the warnings filters"""
    import sys
    import warnings
    return {"np.geterr": dict(np.geterr()), "recursionlimit": sys.getrecursionlimit(),
            "warnings.filters": len(warnings.filters), "np.printoptions": repr(sorted(np.get_printoptions().items()))}


def run_points(case, box=None, labels=None, queries=None, wall_s=300, state_hook=None, poison=None):
    """returns dict(points=[...], last=..., crash=str|None, box_after=..., qpoints=[...])"""
    box_in = copy.deepcopy(box if box is not None else case["box"])
    if case.get("alias_box"):
        box_in = [box_in[0]] * len(box_in)
    c = dict(case)
    c["box"] = box_in
    seq = C.open_rewards(case["reward"]["family"], case["reward"]["seed"], max(case["T"], 1)) if not case["reward"][
        "family"].startswith("cl_") else None
    fn = C.reward_fn(case) if seq is None else None
    labels = labels or labels_of(case)
    queries = set(queries or [])
    P = C.plain_part_class(case["part"], case.get("part_binding"))
    out = {"points": [], "last": None, "crash": None, "qpoints": []}
    budget = C.StepBudget(5 * 10 ** 6)
    state0 = process_state()
    old = signal.signal(signal.SIGALRM, _alarm)
    signal.alarm(int(wall_s * float(os.environ.get("PYXABMON_WALL_SCALE", "1") or 1)))
    try:
        if poison is not None:
            poison_heap(poison)
        np.random.seed(case["np_seed"])
        # build with the *same list objects* that we keep, to observe mutation of the user's input
        user_box = box_in
        out["box_ids_before"] = [id(user_box)] + [id(iv) for iv in user_box]
        cc = dict(c)
        # hangs are decided on logical steps (PyXAB function entries per API call), as in the driver: a wall-clock
        # watchdog alone would cost minutes per hanging run
        budget.on()
        budget.reset()
        algo = build_with_box(cc, P, user_box)
        out["algo"] = algo
        for i, t in enumerate(labels):
            budget.reset()
            p = algo.pull(t)
            out["points"].append(list(p) if isinstance(p, (list, tuple)) else p)
            r = float(seq[i]) if seq is not None else fn(i, p)
            budget.reset()
            algo.receive_reward(t, r)
            if i in queries:
                try:
                    budget.reset()
                    q = algo.get_last_point()
                    out["qpoints"].append(list(q) if isinstance(q, (list, tuple)) else q)
                except Exception:
                    out["qpoints"].append("ERR")  # asked too early (known findings of C01): recorded, run goes on
        if not case.get("no_last"):
            budget.reset()
            q = algo.get_last_point()
            out["last"] = list(q) if isinstance(q, (list, tuple)) else q
        out["user_box"] = user_box
        out["box_ids_after"] = [id(user_box)] + [id(iv) for iv in user_box]
    except Watchdog:
        out["crash"] = "Watchdog"
    except C.StepBudgetExceeded:
        out["crash"] = "StepBudgetExceeded: more than 5e6 PyXAB function entries in one API call (hang)"
    except Exception as e:
        out["crash"] = "%s: %s" % (type(e).__name__, str(e)[:100])
    finally:
        budget.off()
        signal.alarm(0)
        signal.signal(signal.SIGALRM, old)
    state1 = process_state()
    if state1 != state0:
        out["process_state_changed"] = {k: (state0[k], state1[k]) for k in state0 if state0[k] != state1[k]}
        np.seterr(**state0["np.geterr"])  # (the next case of this worker starts from the usual state again)
    return out


def build_with_box(case, P, box_obj):
    """hands *box_obj itself* (no copy) to PyXAB, so that mutation of the user's input can be observed"""
    return C.build(case, P, box_obj=box_obj)


def digest(points, last):
    h = hashlib.sha256()
    h.update(json.dumps([[repr(float(x)) for x in p] if isinstance(p, list) else repr(p) for p in points]).encode())
    h.update(json.dumps([repr(float(x)) for x in last] if isinstance(last, list) else repr(last)).encode())
    return h.hexdigest()


def first_diff(a, b):
    for i, (x, y) in enumerate(zip(a, b)):
        if x != y:
            return i, x, y
    if len(a) != len(b):
        return min(len(a), len(b)), None, None
    return None


def safe_case(rng, algo, tier, part=None, dim=None, fams=None, n_choices=None, box_kind=None):
    """a case on which the documented loop runs to completion (no known finding of C01 in the way)"""
    from . import gen
    n_choices = n_choices or ([100, 128, 150, 200] if tier == "quick" else [100, 150, 200, 300, 500])
    fams = fams or ["neg", "tied", "noisy", "unit", "large", "drift", "twoval", "const", "incr"]
    c = gen.algo_case(rng, algo, tier, part=part, dim=dim, fams=fams, early_stop=False, n_choices=n_choices,
                      box_kind=box_kind)
    if C.family(algo) in ("POO", "GPO"):
        c["params"]["rhomax"] = float(rng.uniform(0.05, 0.95))
    if algo in C.TREE_BANDITS:
        c["params"]["c"] = float(10 ** rng.uniform(-1, 0.5)) if "c" in c["params"] else None
        c["params"] = {k: v for k, v in c["params"].items() if v is not None}
    if algo == "Zooming":
        c["params"] = {"nu": float(10 ** rng.uniform(-0.5, 1.5)), "rho": float(rng.uniform(0.4, 0.95))}
    return c


if __name__ == "__main__":
    import sys
    case = json.load(sys.stdin)
    r = run_points(case)
    print("DIGEST", digest(r["points"], r["last"]), r["crash"])
