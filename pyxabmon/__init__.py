"""pyxabmon - runtime monitors for PyXAB (see /verif/DESIGN.md).

Everything in here observes the real code imported from /repo; nothing is a model of PyXAB except the small
reference models (pyxabmon/refs.py) that recompute, from the client-side history alone, what the real code must
have done.
"""
