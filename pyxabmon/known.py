"""known_findings.json: genuine defects of PyXAB that are recorded rather than repaired.  A violation is matched
against the *open* entries by mechanism (structured fields + a named condition over the case descriptor), never by
seed, hash or random values.  The file is never written at run time."""
import json
import math
import os

from . import common as C

PATH = os.path.join(C.VERIF, "known_findings.json")


def load():
    with open(PATH) as f:
        return json.load(f)["findings"]


def _gpo_H(case):
    N, H, _ = C.gpo_N_H(case["n"], case["params"]["rhomax"])
    return N, H


def _stop(case, v):
    """the stopping time at which get_last_point was asked (intermediate stop probes carry their own)"""
    return (v.get("detail") or {}).get("stop_T", case["T"])


CONDITIONS = {
    # VROOM hard-codes two children per cell
    "vroom_arity_ne_2": lambda case, v: case.get("algo") == "VROOM" and C.arity(case["part"], len(case["box"])) != 2,
    # GPO/PCT/VPCT: no budget per learner
    "gpo_half_phase_zero": lambda case, v: C.family(case.get("algo", "")) == "GPO" and _gpo_H(case)[1] == 0,
    # GPO/PCT/VPCT stopped before the first validation round began
    "gpo_stopped_before_validation": lambda case, v: C.family(case.get("algo", "")) == "GPO"
    and _gpo_H(case)[1] >= 1 and _stop(case, v) <= _gpo_H(case)[1],
    # StroquOOL stopped early (T < budget)
    "stroquool_stopped_early": lambda case, v: case.get("algo") == "StroquOOL" and _stop(case, v) < case["n"],
    # rounds after the algorithm's own termination
    "stroquool_after_end": lambda case, v: case.get("algo") == "StroquOOL" and bool(v.get("detail", {}).get("after_end")),
    "gpo_after_last_phase": lambda case, v: C.family(case.get("algo", "")) == "GPO"
    and bool(v.get("detail", {}).get("after_end")),
}


def match(prop, case, v, findings=None):
    """the open finding whose mechanism this violation has, or None"""
    if findings is None:
        findings = load()
    for f in findings:
        if f["property"] != prop or f["status"] != "open":
            continue
        m = f["match"]
        if "pred" in m and v.get("pred") not in m["pred"]:
            continue
        d = v.get("detail", {}) or {}
        ok = True
        for key in ("exc", "site", "phase"):
            if key in m and d.get(key) not in (m[key] if isinstance(m[key], list) else [m[key]]):
                ok = False
        if not ok:
            continue
        try:
            if not CONDITIONS[m["cond"]](case, v):
                continue
        except (KeyError, TypeError, ValueError, ZeroDivisionError):
            continue
        return f
    return None
