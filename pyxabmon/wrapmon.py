"""Monitors for the wrappers POO and GPO/PCT/VPCT (C04, C07, C09, C10): a *recording subclass* of the real base
learner (same __name__, so the wrappers accept it) turns every constructor call, pull and receive_reward of a base
learner into an event; a reference schedule recomputed from (n, rhomax) and the ledger says what must have happened."""
import contextlib
import math

import numpy as np

from . import common as C
from .driver import Monitor
from .treemon import TreeMon

close = C.close


class Recorder:
    def __init__(self):
        self.learners = []  # dicts: obj, kw, tm, pulls [(round, point_obj)], rewards [(round, r)]
        self.events = []  # (what, learner_index, value) since last clear
        self.by_id = {}
        self.sink = None
        self.hub = None
        self.with_tree = False

    def new(self, obj, kw, kind):
        L = {"obj": obj, "kw": dict(kw), "pulls": [], "rewards": [], "tm": None, "idx": len(self.learners),
             "kind": kind, "born": self.hub.round if self.hub else 0}
        self.learners.append(L)
        self.by_id[id(obj)] = L
        self.events.append(("new", L["idx"], None))
        if self.with_tree and self.sink is not None:
            P = {"nu": kw.get("nu"), "rho": kw.get("rho")}
            if kind == "T_HOO":
                P["n"] = kw.get("rounds")
            elif kind == "HCT":
                P.update(c=obj.c, delta=obj.delta)  # defaults of the real class
            else:
                P.update(c=obj.c, delta=obj.delta, bound=obj.bound)
            L["tm"] = TreeMon(kind, obj, P, self.sink, self.hub, tag="learner%d" % L["idx"])
        return L


def recording_learner(base, rec):
    kind = base.__name__

    class _L(base):
        def __init__(self, *a, **kw):
            super().__init__(*a, **kw)
            rec.new(self, kw, kind)

        def pull(self, time):
            p = super().pull(time)
            L = rec.by_id[id(self)]
            rec.events.append(("pull", L["idx"], p))
            L["pulls"].append(p)
            if L["tm"]:
                L["tm"].on_pull(p, is_query=(rec.hub.phase in ("query", "last", "midquery")))
            return p

        def receive_reward(self, time, reward):
            super().receive_reward(time, reward)
            L = rec.by_id[id(self)]
            rec.events.append(("reward", L["idx"], reward))
            L["rewards"].append(reward)
            if L["tm"]:
                L["tm"].on_reward(reward)

    _L.__name__ = base.__name__
    _L.__qualname__ = base.__qualname__
    return _L


@contextlib.contextmanager
def patched_pct(case, rec):
    """PCT / VPCT import their base learner at module level: replace that module attribute for the construction"""
    a = case["algo"]
    if a == "PCT":
        import PyXAB.algos.PCT as mod
        name = "HCT"
    elif a == "VPCT":
        import PyXAB.algos.VPCT as mod
        name = "VHCT"
    else:
        yield None
        return
    orig = getattr(mod, name)
    setattr(mod, name, recording_learner(orig, rec))
    try:
        yield None
    finally:
        setattr(mod, name, orig)


def same_point(p, q):
    """identity, or value equality (an implementation may hand out a copy of the stored point)"""
    if p is q:
        return True
    try:
        return list(p) == list(q)
    except TypeError:
        return False


def base_kind(algo):
    if algo == "PCT":
        return "HCT"
    if algo == "VPCT":
        return "VHCT"
    return algo.split("_", 1)[1]


def inner(algo_obj):
    """PCT/VPCT hold their GPO in .algorithm"""
    return getattr(algo_obj, "algorithm", algo_obj)


class WrapMon(Monitor):
    """shared by C04/C07/C09/C10; `rec` must be the Recorder whose recording class was handed to the wrapper"""

    def __init__(self, rec, with_tree=False):
        super().__init__()
        self.rec = rec
        rec.sink = self
        rec.with_tree = with_tree
        self.round_events = []
        self.val_rewards = {}  # GPO: phase -> list of validation rewards
        self.ambiguous = False
        self.dropped = 0

    def after_mc(self, ev):
        for L in self.rec.learners:
            if L["tm"]:
                L["tm"].on_mc(ev)

    def start(self, ctx):
        self.rec.hub = ctx.hub
        self.fam = C.family(ctx.case["algo"])
        self.w = inner(ctx.algo)
        P = ctx.case["params"]
        self.numax, self.rhomax, self.n = P["nu"], P["rhomax"], ctx.case["n"]
        if self.fam == "GPO":
            self.N, self.H, x = C.gpo_N_H(self.n, self.rhomax)
            self.ambiguous = C.near_int(x)  # N = ceil(x) is then a rounding matter; n/(2N) is an exact quotient
            if self.ambiguous:
                self.obs["ambiguous_schedules_skipped"] += 1
        self.rec.events.clear()
        self.last_prop = {}  # learner idx -> last proposed point object

    # ------------------------------------------------------------------
    def before_pull(self, ctx, t):
        self.rec.hub = ctx.hub
        self.rec.events.clear()
        if self.fam == "POO":
            self.pre = (list(self.w.V_reward), list(self.w.Times), len(self.w.V_algo))
        else:
            self.pre = (list(self.w.V_reward), len(self.w.V_x))

    def on_pull(self, ctx, t, point):
        self.pull_events = list(self.rec.events)
        self.point = point

    def on_reward(self, ctx, t, r):
        evs = list(self.rec.events)
        news = [e for e in evs if e[0] == "new"]
        pulls = [e for e in evs if e[0] == "pull"]
        rews = [e for e in evs if e[0] == "reward"]
        i = ctx.round - 1  # 0-based index of the round just completed
        for e in news:
            # a wrapper runs its base learners on the search space it was given: same partition class, same domain
            L = self.rec.learners[e[1]]
            part = getattr(L["obj"], "partition", None)
            want = getattr(ctx.hub, "part_cls", None)
            if part is None or want is None or not hasattr(part, "get_root"):
                continue  # (stub learners have no partition)
            self.obs["learner_search_spaces_checked"] += 1
            dom = part.get_root().get_domain()
            if not isinstance(part, want) or [list(x) for x in dom] != [list(x) for x in ctx.box]:
                pre = "C10" if self.fam == "POO" else "C09"
                self.v(pre + ":base_learner_not_built_on_the_partition_and_domain_given_to_the_wrapper",
                       learner=e[1], partition=type(part).__mro__[1].__name__ if len(type(part).__mro__) > 1 else type(part).__name__,
                       domain=dom)
        if self.fam == "POO":
            self._poo_round(ctx, i, r, news, pulls, rews)
        elif not self.ambiguous:
            self._gpo_round(ctx, i, r, news, pulls, rews)
        for e in pulls:
            self.last_prop[e[1]] = e[2]

    # ------------------------------------------------------------------ POO
    def _poo_round(self, ctx, i, r, news, pulls, rews):
        w = self.w
        self.obs["poo_rounds_checked"] += 1
        if len(pulls) != 1:
            self.v("C10:round_not_served_by_exactly_one_learner", pulls=len(pulls))
            return
        if len(rews) != 1:
            self.v("C10:reward_not_delivered_to_exactly_one_learner", deliveries=len(rews))
            self.v("C04:reward_not_delivered_to_exactly_one_learner", deliveries=len(rews))
            return
        if pulls[0][1] != rews[0][1]:
            self.v("C10:reward_delivered_to_another_learner", proposer=pulls[0][1], receiver=rews[0][1])
            self.v("C04:reward_delivered_to_another_learner", proposer=pulls[0][1], receiver=rews[0][1])
        if rews[0][2] != r:
            self.v("C10:learner_received_a_different_reward", got=rews[0][2], sent=r)
            self.v("C04:learner_received_a_different_reward", got=rews[0][2], sent=r)
        if pulls[0][2] is not self.point and list(pulls[0][2]) != list(self.point):
            self.v("C10:returned_point_is_not_the_learners_proposal")
        # learners only grow, each with numax and a fresh grid rho
        objs = [L["obj"] for L in self.rec.learners]
        if len(w.V_algo) < self.pre[2] or any(a is not b for a, b in zip(w.V_algo, objs)) or len(w.V_algo) != len(
                objs):
            self.v("C10:learner_list_changed_other_than_by_appending", before=self.pre[2], after=len(w.V_algo),
                   created=len(objs))
        for e in news:
            L = self.rec.learners[e[1]]
            self._check_grid(L)
        # scores and counts == ledger of each learner
        for j, L in enumerate(self.rec.learners):
            if j >= len(w.V_reward) or j >= len(w.Times):
                self.v("C10:score_list_shorter_than_learner_list")
                break
            cnt = len(L["rewards"])
            self.obs["poo_scores_compared"] += 1
            if w.Times[j] != cnt:
                self.v("C10:recorded_count_differs_from_rewards_received", learner=j, times=w.Times[j], received=cnt)
            if cnt:
                m = math.fsum(L["rewards"]) / cnt
                sc = max(abs(x) for x in L["rewards"])
                if not close(float(w.V_reward[j]), m, 1e-9, 1e-9 * sc):
                    self.v("C10:score_differs_from_mean_of_rewards_received", learner=j, score=float(w.V_reward[j]),
                           mean=m, received=cnt)
                    self.v("C04:score_differs_from_mean_of_rewards_received", learner=j)

    def _check_grid(self, L):
        kw = L["kw"]
        self.obs["learners_created"] += 1
        if kw.get("nu") != self.numax:
            self.v("C10:learner_nu_is_not_numax", nu=kw.get("nu"))
        rho = kw.get("rho")
        if rho is None or not (0 < rho < self.rhomax):
            self.v("C10:learner_rho_not_in_open_interval", rho=rho, rhomax=self.rhomax)
            return
        ok = False
        N = 2
        while N <= 2 ** 16 and not ok:
            for i in range(N):
                if close(rho, self.rhomax ** (2.0 * N / (2 * i + 1)), 1e-12):
                    ok = True
                    L["grid"] = (N, i)
                    break
            N *= 2
        if not ok:
            self.v("C10:learner_rho_not_on_the_grid", rho=rho, rhomax=self.rhomax)
        for M in self.rec.learners:
            if M is not L and M["kw"].get("rho") == rho:
                self.v("C10:learner_rho_not_distinct", rho=rho)

    # ------------------------------------------------------------------ GPO
    def _gpo_round(self, ctx, i, r, news, pulls, rews):
        w = self.w
        N, H = self.N, self.H
        if H < 1:
            return
        self.obs["gpo_rounds_checked"] += 1
        # generic credit rule (C04): a learner receives a reward only for a point it proposed in this very round
        proposers = [e[1] for e in pulls]
        for e in rews:
            if e[1] not in proposers:
                self.v("C04:reward_delivered_to_a_learner_that_did_not_propose", learner=e[1], proposers=proposers,
                       round=i)
        if len(rews) > 1:
            self.v("C04:reward_delivered_to_more_than_one_learner", deliveries=len(rews))
        if i >= 2 * N * H:
            # after the last phase: the output is fixed; rewards are dropped (known finding of C04)
            if news or pulls or rews:
                self.v("C09:learner_activity_after_the_last_phase", news=len(news), pulls=len(pulls), rews=len(rews))
            best, _ = self._gpo_best()
            if best is not None and not any(same_point(self.point, x) for x in best):
                self.v("C09:point_after_last_phase_is_not_the_best_validated", round=i)
            if list(w.V_reward) == self.pre[0]:
                self.dropped += 1
                if self.dropped == 1:
                    self.v("C04:reward_recorded_nowhere", after_end=True, round=i)
            else:
                self.v("C04:statistic_changed_after_termination", round=i)
            return
        ph, pos = i // (2 * H) + 1, i % (2 * H)
        L = self.rec.learners[ph - 1] if len(self.rec.learners) >= ph else None
        if pos == 0:
            if len(news) != 1 or len(self.rec.learners) != ph:
                self.v("C09:phase_did_not_start_with_a_new_learner", phase=ph, created=len(news),
                       learners=len(self.rec.learners))
                return
            L = self.rec.learners[ph - 1]
            kw = L["kw"]
            self.obs["learners_created"] += 1
            want = self.rhomax ** (2.0 * N / (2 * ph + 1))
            if kw.get("nu") != self.numax or not close(kw.get("rho", -1), want, 1e-12):
                self.v("C09:learner_parameters_off_the_published_grid", phase=ph, nu=kw.get("nu"), rho=kw.get("rho"),
                       want_rho=want)
            if any(M is not L and M["kw"].get("rho") == kw.get("rho") for M in self.rec.learners):
                self.v("C09:learner_rho_not_distinct", rho=kw.get("rho"))
        elif news:
            self.v("C09:learner_created_in_the_middle_of_a_phase", phase=ph, pos=pos)
        if L is None:
            self.v("C09:no_learner_for_phase", phase=ph)
            return
        if pos < H:
            ok = len(pulls) == 1 and pulls[0][1] == ph - 1 and len(rews) == 1 and rews[0][1] == ph - 1
            if not ok:
                self.v("C09:training_round_not_served_by_the_phase_learner", phase=ph, pos=pos,
                       pulls=[e[1] for e in pulls], rewards=[e[1] for e in rews])
                self.v("C04:training_reward_not_delivered_to_the_proposer", phase=ph, pos=pos)
                return
            if rews[0][2] != r:
                self.v("C09:learner_received_a_different_reward", got=rews[0][2], sent=r)
                self.v("C04:learner_received_a_different_reward", got=rews[0][2], sent=r)
            if pulls[0][2] is not self.point:
                self.v("C09:returned_point_is_not_the_learners_proposal", phase=ph, pos=pos)
            if list(w.V_reward) != self.pre[0][:len(w.V_reward)] or len(w.V_reward) != len(self.pre[0]):
                self.v("C04:validation_score_changed_in_a_training_round", phase=ph, pos=pos)
        else:
            if pulls or rews:
                self.v("C09:learner_driven_in_a_validation_round", phase=ph, pos=pos, pulls=[e[1] for e in pulls],
                       rewards=[e[1] for e in rews])
                self.v("C04:validation_reward_delivered_to_a_learner", phase=ph, pos=pos)
            x = self.last_prop.get(ph - 1)
            if x is None or self.point is not x:
                self.v("C09:validated_point_is_not_the_learners_last_proposal", phase=ph, pos=pos)
                self.v("C04:validation_reward_credited_to_the_score_of_a_point_that_was_not_pulled", phase=ph, pos=pos)
            vr = self.val_rewards.setdefault(ph, [])
            vr.append(r)
            self.obs["gpo_scores_compared"] += 1
            if len(w.V_reward) != ph or len(w.V_x) != ph:
                self.v("C09:score_list_length", phase=ph, scores=len(w.V_reward), points=len(w.V_x))
            else:
                m = math.fsum(vr) / len(vr)
                if not close(float(w.V_reward[ph - 1]), m, 1e-9, 1e-9 * max(abs(v) for v in vr)):
                    self.v("C09:score_differs_from_mean_of_validation_rewards", phase=ph, score=float(w.V_reward[ph - 1]),
                           mean=m, k=len(vr))
                    self.v("C04:score_differs_from_mean_of_validation_rewards", phase=ph)
                if list(w.V_reward[:ph - 1]) != self.pre[0][:ph - 1]:
                    self.v("C04:other_phase_score_changed", phase=ph)
                if w.V_x[ph - 1] is not x:
                    self.v("C09:stored_validated_point_is_not_the_learners_last_proposal", phase=ph)

    def _gpo_best(self):
        """the stored validated points whose ledger validation mean is maximal (ties: any of them)"""
        done = {ph: v for ph, v in self.val_rewards.items() if v}
        if not done:
            return None, None
        means = {ph: math.fsum(v) / len(v) for ph, v in done.items()}
        mx = max(means.values())
        return [self.w.V_x[ph - 1] for ph, m in means.items() if (m >= mx or close(m, mx)) and len(
            self.w.V_x) >= ph], means

    # ------------------------------------------------------------------ recommendation (C07 / C09 / C10)
    def before_query(self, ctx):
        self._stash = list(self.rec.events)
        self.rec.events.clear()

    def on_query(self, ctx, point):
        self._recommend(ctx, point)
        if ctx.extra.get("mid"):
            # a query between pull and receive_reward: the events of the open round stay on record
            self.rec.events[:] = self._stash
            self.obs["mid_round_queries"] += 1

    def on_last(self, ctx, point):
        self._recommend(ctx, point)

    def _recommend(self, ctx, point):
        if self.fam == "POO":
            qp = [e for e in self.rec.events if e[0] == "pull"]
            self.obs["recommendations_checked"] += 1
            if len(qp) != 1 or any(e[0] != "pull" for e in self.rec.events):
                self.v("C07:POO_recommendation_not_one_learner_proposal", pulls=len(qp))
                self.v("C10:POO_recommendation_not_one_learner_proposal", pulls=len(qp))
            else:
                j = qp[0][1]
                means = [math.fsum(L["rewards"]) / len(L["rewards"]) if L["rewards"] else 0.0
                         for L in self.rec.learners]
                mx = max(means)
                if not (means[j] >= mx or close(means[j], mx)):
                    self.v("C07:POO_recommends_a_learner_without_the_highest_score", learner=j, mean=means[j], best=mx)
                    self.v("C10:POO_recommends_a_learner_without_the_highest_score", learner=j, mean=means[j], best=mx)
                if qp[0][2] is not point:
                    self.v("C07:POO_recommendation_is_not_that_learners_proposal")
                    self.v("C10:POO_recommendation_is_not_that_learners_proposal")
        elif not self.ambiguous and self.H >= 1:
            best, means = self._gpo_best()
            if best is None:
                return
            self.obs["recommendations_checked"] += 1
            if any(e[0] in ("pull", "reward", "new") for e in self.rec.events):
                self.v("C09:GPO_recommendation_drives_a_learner")
            if ctx.extra.get("mid"):
                # between pull and receive_reward of the first validation round of a phase the score list holds a
                # placeholder for the point under validation; the properties speak about the recommendation after a
                # run / once all phases are over, so a mid-round answer is not judged (it must only be harmless)
                self.obs["mid_round_queries"] += 1
                return
            if not any(same_point(point, x) for x in best):
                self.v("C07:GPO_recommendation_is_not_the_best_validated_point", means=means)
                self.v("C09:GPO_recommendation_is_not_the_best_validated_point", means=means)

    def finish(self, ctx):
        for L in self.rec.learners:
            if L["tm"]:
                L["tm"].finish()
        self.obs["max_learners"] = max(self.obs.get("max_learners", 0), len(self.rec.learners))
        if self.dropped:
            self.obs["rewards_dropped_after_termination"] += self.dropped


def stub_learner(kind):
    """O(1) stand-in for a base learner (same __name__): proposes a fresh in-box point object per pull.  Used for the
    schedule enumeration of C09/C10, where only the routing of pulls and rewards matters."""

    class _S:
        def __init__(self, nu=None, rho=None, rounds=None, domain=None, partition=None):
            self.nu, self.rho, self.k, self.dom = nu, rho, 0, domain

        def pull(self, time):
            self.k += 1
            u = (self.k * 0.6180339887498949) % 1.0
            return [lo + (hi - lo) * u for lo, hi in self.dom]

        def receive_reward(self, time, reward):
            pass

        def get_last_point(self):
            return self.pull(0)

    _S.__name__ = kind
    _S.__qualname__ = kind
    return _S
