"""Monitors for the simple-regret searchers: C07 (recommendation), C08 (SOO/StoSOO/DOO optimistic rule) and C12
(SequOOL's depth-by-depth schedule).  All of them work from the client-side ledger (cell identity by point object)
and from the make_children events of the instrumented partition, captured *before* the split so that the tree and
the ledger are seen as the algorithm saw them when it decided."""
import collections
import math

from . import common as C
from .driver import Monitor

close = C.close


def leaves_by_depth(part):
    out = collections.defaultdict(list)
    for h, layer in enumerate(part.get_node_list()):
        for x in layer:
            if x.get_children() is None:
                out[h].append(x)
    return out


class Ledger(Monitor):
    """per-cell ledger shared by the monitors below"""

    def __init__(self):
        super().__init__()
        self.led = {}  # id(cell) -> [cell, [(round, reward)]]
        self.cell = None

    def start(self, ctx):
        self.algo = ctx.case["algo"]
        self.fam = C.family(self.algo)
        self.part = ctx.algo.partition
        self.n = ctx.case["n"]
        self.P = ctx.case.get("params", {})

    def rewards(self, x):
        e = self.led.get(id(x))
        return [r for _, r in e[1]] if e else []

    def on_pull(self, ctx, t, p):
        self.cell = ctx.hub.owner(p)

    def on_reward(self, ctx, t, r):
        if self.cell is not None:
            self.led.setdefault(id(self.cell), [self.cell, []])[1].append((ctx.round - 1, r))


# ---------------------------------------------------------------------------------------------------------------
class RecoMon(Ledger):
    """C07 for DOO / SOO / SequOOL / StoSOO / StroquOOL"""

    def __init__(self):
        super().__init__()
        self.val_start = None
        self.candidates = {}
        self.val = {}  # id(cell) -> validation rewards that were actually recorded

    def on_pull(self, ctx, t, p):
        super().on_pull(ctx, t, p)
        if self.fam == "StroquOOL":
            if self.val_start is None:
                for key, (x, h) in self.led.items():
                    # h counts only recorded rewards (see on_reward)
                    if len(x.rewards) < len(h):
                        self.val_start = ctx.round
                        self.candidates[key] = x
            self.pre_T = self.cell.get_visited_times() if self.cell is not None else None

    def on_reward(self, ctx, t, r):
        if self.fam == "StroquOOL":
            x = self.cell
            if x is None or x.get_visited_times() == self.pre_T:
                return  # dropped after the algorithm's own end (known finding of C04): not evidence for anything
            self.led.setdefault(id(x), [x, []])[1].append((ctx.round - 1, r))
            if self.val_start is not None:
                self.val.setdefault(id(x), []).append(r)
            return
        super().on_reward(ctx, t, r)

    def on_query(self, ctx, p):
        if ctx.extra.get("mid"):
            # asked while the evaluation of the pulled point is pending: C07 speaks about the recommendation after a
            # run, so the answer is not judged - but the query must not disturb the later recommendations
            self.obs["mid_round_queries_answer_not_judged"] += 1
            return
        self.on_last(ctx, p)

    def on_last(self, ctx, p):
        X = ctx.hub.owner(p)
        self.obs["recommendations_checked"] += 1
        if X is None:
            self.v("C07:recommendation_is_no_cell_representative", point=repr(p)[:80])
            return
        f = self.fam
        if f in ("DOO", "SOO", "SequOOL"):
            cand = {}
            for key, (x, h) in self.led.items():
                if f == "SequOOL" and x is self.part.get_root():
                    continue  # pulls after the schedule is exhausted are not search evaluations
                if h:
                    cand[key] = max(r for _, r in h)
            if not cand:
                return
            self.obs["candidates_compared"] += len(cand)
            if id(X) not in cand:
                self.v("C07:recommended_point_was_never_evaluated", depth=X.get_depth(), index=X.get_index(),
                       evaluated=len(cand), best=max(cand.values()))
                return
            best = max(cand.values())
            if cand[id(X)] < best:
                self.v("C07:recommended_point_is_not_a_best_evaluated_point", reward=cand[id(X)], best=best,
                       evaluated=len(cand))
        elif f == "StoSOO":
            deepest = self.part.get_depth()
            layer = self.part.get_node_list()[deepest]
            if X.get_depth() != deepest or not any(X is y for y in layer):
                self.v("C07:StoSOO_recommendation_not_at_the_deepest_level", depth=X.get_depth(), deepest=deepest)
                return

            def mean(y):
                h = self.rewards(y)
                return math.fsum(h) / len(h) if h else 0.0
            best = max(mean(y) for y in layer)
            self.obs["candidates_compared"] += len(layer)
            if not (mean(X) >= best or close(mean(X), best)):
                self.v("C07:StoSOO_recommendation_is_not_a_best_mean_of_the_deepest_level", mean=mean(X), best=best)
        elif f == "StroquOOL":
            if self.val_start is None:
                return  # stopped before validation: get_last_point raises (known finding of C01)
            means = {k: math.fsum(v) / len(v) for k, v in self.val.items() if v and k in self.candidates}
            if not means:
                return
            self.obs["candidates_compared"] += len(means)
            if id(X) not in means:
                self.v("C07:StroquOOL_recommendation_is_not_a_re_evaluated_candidate", depth=X.get_depth())
                return
            best = max(means.values())
            if not (means[id(X)] >= best or close(means[id(X)], best)):
                self.v("C07:StroquOOL_recommendation_is_not_the_best_validation_mean", mean=means[id(X)], best=best)


# ---------------------------------------------------------------------------------------------------------------
class SweepMon(Ledger):
    """C08 for SOO / StoSOO / DOO"""

    def start(self, ctx):
        super().start(ctx)
        P = self.P
        self.cap = P.get("h_max") if self.fam in ("SOO", "StoSOO") else None
        if self.fam == "StoSOO":
            self.k = C.stosoo_k(self.n, P.get("k"))
            self.delta = P.get("delta") if P.get("delta") is not None else 1 / math.sqrt(self.n)
        self.need = self.k if self.fam == "StoSOO" else 1
        self.user_delta = C.USER_DELTAS.get(P.get("delta_fn")) if self.algo == "DOO_delta" else None
        self.exp = []  # expansions of the current pull: (depth, value)

    def before_pull(self, ctx, t):
        self.exp = []

    def T(self, x):
        return len(self.rewards(x))

    # -- hostile environment: exact ties between optimistic values -------------------------------------------------
    def choose_reward(self, ctx, t, p, r):
        """with case['adversary'] == 'tie': when possible the reward is chosen such that the evaluated cell's b-value
        becomes bit-identical to the b-value another leaf already has - a leaf of the same depth with ANOTHER
        evaluation count (StoSOO), a leaf of another depth (DOO: reward + delta(h); SOO: reward).  Continuous or coarse
        discrete rewards never produce such ties; tie-breaking slips live exactly there.  The values are computed with
        the very expressions the algorithms use (NumPy float64), and the reward is nudged by a few ulps until the two
        b-values are bit-identical.  Only the workload is hostile: the oracle below is unchanged."""
        import numpy as np
        X = self.cell
        if ctx.case.get("adversary") != "tie" or X is None:
            return None
        rng = self.__dict__.setdefault("_arng", np.random.default_rng([ctx.case.get("np_seed", 0), 8]))
        if rng.random() >= 0.5:
            return None
        L = leaves_by_depth(self.part)
        hx = X.get_depth()
        top = rng.random() < 0.67  # ties at the top are the ones that decide something
        try:
            if self.fam == "StoSOO":
                old = self.rewards(X)
                ys = [y for y in L[hx] if y is not X and self.T(y) >= 1 and self.T(y) != len(old) + 1]
                if not ys:
                    return None
                y = max(ys, key=self.value) if top else ys[int(rng.integers(len(ys)))]
                C_ = np.log(self.n * self.k / self.delta)

                def bval(rews):
                    return float(np.sum(np.array(rews)) / len(rews) + np.sqrt(C_ / (2 * len(rews))))
                by = bval(self.rewards(y))
                m = len(old) + 1
                r0 = float((by - float(np.sqrt(C_ / (2 * m)))) * m - float(np.sum(np.array(old)) if old else 0.0))
                f = lambda cand: bval(old + [cand])
            elif self.fam == "DOO":
                if self.T(X) != 0:
                    return None
                ys = [y for d, l in L.items() for y in l if d != hx and self.T(y) >= 1]
                if not ys:
                    return None
                y = max(ys, key=self.value) if top else ys[int(rng.integers(len(ys)))]
                by = float(self.rewards(y)[0] + ctx.algo.delta(y.get_depth()))
                off = float(ctx.algo.delta(hx))
                r0 = by - off
                f = lambda cand: float(np.float64(cand) + np.float64(off))
            else:  # SOO: the value is the reward itself
                if self.T(X) != 0:
                    return None
                # (partners of the same depth too: SOO compares the leaves of one depth with each other)
                ys = [y for d, l in L.items() for y in l if self.T(y) >= 1 and y is not X]
                if not ys:
                    return None
                same = [y for y in ys if y.get_depth() == hx]
                if same and rng.random() < 0.5:
                    ys = same
                y = max(ys, key=self.value) if top else ys[int(rng.integers(len(ys)))]
                return self._near(float(self.rewards(y)[0]), rng)
            if not (math.isfinite(by) and math.isfinite(r0)) or abs(r0) > 1e300:
                return None
            cands, lo, hi = [r0], r0, r0
            for _ in range(24):
                lo, hi = float(np.nextafter(lo, -math.inf)), float(np.nextafter(hi, math.inf))
                cands += [lo, hi]
            for cand in cands:
                if f(cand) == by:
                    return self._near(float(cand), rng)
        except Exception:
            return None
        self.obs["adversarial_ties_not_representable"] += 1
        return None

    def _near(self, cand, rng):
        """an exact tie - or, three times out of ten, a near miss: the reward a few ulps away from the one that ties
        (values that differ in the last bits are different values; a comparison with a tolerance treats them as equal)"""
        import numpy as np
        if rng.random() < 0.3:
            k = int(rng.integers(1, 5)) * (1 if rng.random() < 0.5 else -1)
            for _ in range(abs(k)):
                cand = float(np.nextafter(cand, math.inf if k > 0 else -math.inf))
            self.obs["adversarial_near_ties_made"] += 1
            return cand
        self.obs["adversarial_exact_ties_made"] += 1
        return cand

    def doo_delta(self, h):
        if self.user_delta is not None:
            return self.user_delta(h)
        best = -math.inf
        for y in self.part.get_node_list()[h]:
            lo, hi = y.get_domain()[0]
            c = (lo + hi) / 2
            best = max(best, (lo - c) ** 2, (hi - c) ** 2)
        return best

    def value(self, x):
        h = self.rewards(x)
        if self.fam == "StoSOO":
            if not h:
                return math.inf
            return math.fsum(h) / len(h) + math.sqrt(math.log(self.n * self.k / self.delta) / (2 * len(h)))
        if not h:
            return None
        if self.fam == "SOO":
            return h[0]
        return h[0] + self.doo_delta(x.get_depth())

    def before_mc(self, ev):
        if ev["part"] is not getattr(self, "part", None):
            return
        X = ev["parent"]
        self.obs["expansions_judged"] += 1
        if ev["phase"] != "pull":
            self.v("C08:expansion_outside_pull", phase=ev["phase"])
        if not ev["was_leaf"]:
            self.v("C08:expanded_cell_was_not_a_leaf", depth=X.get_depth())
            return
        if self.T(X) < self.need:
            self.v("C08:expanded_leaf_not_fully_evaluated", pulls=self.T(X), need=self.need, depth=X.get_depth())
            return
        if self.cap is not None and X.get_depth() > self.cap:
            self.v("C08:expanded_leaf_beyond_depth_cap", depth=X.get_depth(), cap=self.cap)
        L = leaves_by_depth(self.part)
        for h, ys in L.items():
            inscope = self.cap is None or h <= self.cap
            if not inscope:
                continue
            if self.fam == "DOO":
                prec = True
            else:
                prec = h <= X.get_depth()
            if prec and any(self.T(y) == 0 for y in ys):
                self.v("C08:leaf_expanded_while_an_unevaluated_leaf_precedes_it", leaf_depth=h,
                       expanded_depth=X.get_depth())
                return
        if self.fam == "DOO":
            cands = [y for ys in L.values() for y in ys]
        else:
            cands = L[X.get_depth()]
        vals = [self.value(y) for y in cands]
        vals = [v for v in vals if v is not None]
        vx = self.value(X)
        best = max(vals)
        self.obs["expansion_values_compared"] += len(vals)
        # SOO's value is the reward itself and DOO's, with a user-supplied delta, the very float sum the algorithm
        # forms: compared exactly (a reward a few ulps below the best is not the best).  StoSOO's b-value and DOO's
        # default diameter are recomputed by other expressions than the code's: rel. 1e-9
        exact = self.fam == "SOO" or (self.fam == "DOO" and self.user_delta is not None)
        if not (vx >= best or (not exact and close(vx, best))):
            self.v("C08:expanded_leaf_is_not_the_best", value=vx, best=best, depth=X.get_depth(),
                   candidates=len(vals), exact_comparison=exact)
        if self.fam == "DOO" and self.exp:
            self.v("C08:DOO_more_than_one_expansion_per_pull")
        if self.fam != "DOO":
            # same sweep = expansions of strictly increasing depth inside one pull
            prev = self.exp[-1] if self.exp else None
            if prev is not None and prev[0] < X.get_depth():
                mx = prev[2]
                if vx < mx and (exact or not close(vx, mx)):
                    self.v("C08:expanded_value_below_a_shallower_expansion_of_the_same_sweep", value=vx, earlier=mx)
        run_max = vx
        if self.exp and self.exp[-1][0] < X.get_depth():
            run_max = max(vx, self.exp[-1][2])
        self.exp.append((X.get_depth(), vx, run_max))

    def on_pull(self, ctx, t, p):
        super().on_pull(ctx, t, p)
        X = self.cell
        if p is None:
            return  # cells above the cap used up: totality is C01's business
        self.obs["handouts_checked"] += 1
        if X is None:
            self.v("C08:handed_out_point_is_no_cell_representative", point=repr(p)[:80])
            return
        if X.get_children() is not None:
            self.v("C08:handed_out_cell_is_not_a_leaf", depth=X.get_depth())
        if self.T(X) >= self.need:
            self.v("C08:cell_evaluated_more_often_than_allowed", pulls_before=self.T(X), allowed=self.need,
                   depth=X.get_depth())
        if self.cap is not None and X.get_depth() > self.cap:
            self.v("C08:evaluated_cell_beyond_depth_cap", depth=X.get_depth(), cap=self.cap)
        L = leaves_by_depth(self.part)
        if self.fam != "StoSOO":
            first = None
            for h in sorted(L):
                for y in self.part.get_node_list()[h]:
                    if y.get_children() is None and self.T(y) == 0:
                        first = y
                        break
                if first is not None:
                    break
            if first is not None and first is not X:
                self.v("C08:handed_out_cell_is_not_the_first_unevaluated_leaf_top_down", depth=X.get_depth(),
                       first_depth=first.get_depth(), first_index=first.get_index(), index=X.get_index())
        else:
            vals = [self.value(y) for y in L[X.get_depth()]]
            best = max(vals) if vals else math.inf
            vx = self.value(X)
            if not (vx >= best or close(vx, best)):
                self.v("C08:StoSOO_handed_out_cell_is_not_max_b_of_its_depth", b=vx, best=best)
            if self.exp:
                bmax = max(e[1] for e in self.exp)
                if vx < bmax and not close(vx, bmax):
                    self.v("C08:StoSOO_handed_out_cell_below_the_sweeps_b_max", b=vx, b_max=bmax)

    def finish(self, ctx):
        self.obs["max_tree_depth"] = max(self.obs.get("max_tree_depth", 0), self.part.get_depth())
        if self.cap is not None:
            deepest_eval = max([x.get_depth() for x, h in self.led.values() if h] or [0])
            if deepest_eval >= self.cap:
                self.obs["runs_where_the_cap_was_reached"] += 1


# ---------------------------------------------------------------------------------------------------------------
class SequOOLMon(Ledger):
    """C12"""

    def start(self, ctx):
        super().start(ctx)
        Hn = math.fsum(1.0 / i for i in range(1, self.n + 1))
        self.hmax = math.floor(self.n / Hn)
        self.ambiguous = C.near_int(self.n / Hn)
        self.opens = []  # depths in order
        self.opened = set()
        self.cur = None  # [opened cell, number of its children handed out]
        self.exhausted = False
        self.rec_at_exhaustion = None
        self.ctx_ = ctx

    def before_mc(self, ev):
        if ev["part"] is not getattr(self, "part", None):
            return
        X = ev["parent"]
        h = X.get_depth()
        self.obs["opens_judged"] += 1
        if ev["phase"] != "pull":
            self.v("C12:cell_opened_outside_pull", phase=ev["phase"])
        if self.cur is not None and self.cur[1] != len(self.cur[0].get_children()):
            self.v("C12:cell_opened_before_all_children_of_the_previous_one_were_evaluated", done=self.cur[1])
        if id(X) in self.opened or not ev["was_leaf"]:
            self.v("C12:cell_opened_twice", depth=h)
        if not self.opens and X is not self.part.get_root():
            self.v("C12:first_opened_cell_is_not_the_root", depth=h)
        if not self.ambiguous and h > self.hmax:
            self.v("C12:cell_opened_beyond_h_max", depth=h, h_max=self.hmax)
        if self.opens and not (self.opens[-1] <= h <= self.opens[-1] + 1):
            self.v("C12:opens_are_not_depth_by_depth", previous=self.opens[-1], depth=h)
        if h >= 1:
            if not self.ambiguous and self.opens.count(h) + 1 > math.floor(self.hmax / h):
                self.v("C12:more_opens_at_a_depth_than_floor_hmax_over_h", depth=h, opens=self.opens.count(h) + 1,
                       budget=math.floor(self.hmax / h))
            cands = [y for y in self.part.get_node_list()[h] if id(y) not in self.opened]
            if any(not self.rewards(y) for y in cands):
                self.v("C12:opened_while_a_cell_of_the_depth_is_unevaluated", depth=h)
            else:
                best = max(self.rewards(y)[0] for y in cands)
                self.obs["open_candidates_compared"] += len(cands)
                if self.rewards(X)[0] < best:
                    self.v("C12:opened_cell_is_not_a_best_unopened_cell_of_its_depth", reward=self.rewards(X)[0],
                           best=best, depth=h)
        self.opens.append(h)
        self.opened.add(id(X))
        self.cur = [X, 0]

    def on_pull(self, ctx, t, p):
        super().on_pull(ctx, t, p)
        X = self.cell
        self.obs["handouts_checked"] += 1
        root = self.part.get_root()
        if X is None:
            self.v("C12:handed_out_point_is_no_cell_representative")
            return
        if X is root:
            if not self.exhausted:
                self.exhausted = True
                self.exhausted_at = ctx.round  # completed rounds when the first post-exhaustion pull happened
                self.obs["runs_exhausted_within_budget"] += 1
            return
        if self.exhausted:
            self.v("C12:search_evaluation_after_the_schedule_was_exhausted", depth=X.get_depth())
        if self.rewards(X):
            self.v("C12:search_cell_evaluated_twice", depth=X.get_depth(), index=X.get_index())
        if self.cur is None:
            self.v("C12:evaluation_without_an_opened_cell")
            return
        kids = self.cur[0].get_children() or []
        if self.cur[1] >= len(kids) or X is not kids[self.cur[1]]:
            self.v("C12:children_of_the_opened_cell_not_evaluated_once_each_in_order", position=self.cur[1],
                   depth=X.get_depth(), index=X.get_index())
        self.cur[1] += 1

    def on_query(self, ctx, p):
        self._rec(p)

    def on_last(self, ctx, p):
        self._rec(p)

    def _rec(self, p):
        if not self.exhausted:
            self.last_rec = (p, self.ctx.round)
            return
        if self.rec_at_exhaustion is None:
            # the recommendation at the moment the schedule ran out: the last one seen before the first
            # post-exhaustion pull if the run was queried then, else the first one seen afterwards
            lr = getattr(self, "last_rec", None)
            if lr is not None and lr[1] == self.exhausted_at:
                self.rec_at_exhaustion = lr[0]
                self.obs["recommendation_known_from_before_exhaustion"] += 1
            else:
                self.rec_at_exhaustion = p
        if p is not self.rec_at_exhaustion:
            self.v("C12:recommendation_changed_after_exhaustion", round=self.ctx.round,
                   exhausted_at=self.exhausted_at)
        self.obs["post_exhaustion_recommendations_checked"] += 1

    def finish(self, ctx):
        self.obs["max_open_depth"] = max(self.opens or [0])
        self.obs["max_tree_depth"] = self.part.get_depth()
