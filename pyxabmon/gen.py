"""case generators shared by the checks"""
import math

from . import common as C


def algo_case(rng, algo, tier, part=None, dim=None, n=None, T=None, fams=None, box_kind=None, narrow=False,
              early_stop=True, inject_p=0.0, n_choices=None):
    """one random case descriptor for `algo` (everything derived from rng)"""
    if dim is None:
        dim = int(rng.integers(1, 4))
    if part is None:
        if algo == "VROOM":
            part = str(rng.choice(C.BINARY_PARTS))
        else:
            part = str(rng.choice(C.PART_NAMES))
    K = C.arity(part, dim)
    if n is None:
        ch = n_choices or ([100, 101, 128, 150, 200, 257, 333, 500] if tier == "quick" else
                           [100, 101, 128, 200, 257, 333, 500, 777, 1000, 2000])
        n = int(rng.choice(ch))
        if n_choices is None and rng.random() < 0.5:
            # budget-specific slips (bands of n that depend on K, H_n, log2 n, ...) need budgets off the usual grid
            n = int(rng.integers(100, max(ch) + 1))
        if algo in ("T_HOO", "POO_T_HOO", "GPO_T_HOO"):
            n = min(n, 500 if tier == "quick" else 1000)
        if algo == "VROOM":
            n = min(n, 257 if tier == "quick" else 1000)
        if algo in ("StoSOO",) and K >= 4:
            n = min(n, 1000)
    if T is None:
        if not early_stop or rng.random() < 0.6:
            T = n
        else:
            T = int(rng.integers(1, n + 1)) if rng.random() < 0.7 else int(rng.choice([1, 2, 3, 5, 10]))
    box, kind = C.gen_box(rng, dim, box_kind)
    fams = fams or (C.OPEN_FAMILIES + C.CLOSED_FAMILIES)
    case = {
        "algo": algo, "part": part, "box": box, "box_kind": kind, "n": n, "T": T,
        "params": C.gen_params(rng, algo, n, K, narrow=narrow),
        "np_seed": int(rng.integers(1 << 30)),
        "reward": {"family": str(rng.choice(fams)), "seed": int(rng.integers(1 << 30))},
    }
    if dim >= 2 and rng.random() < 0.12:
        # domain = [[lo, hi]] * d (one shared interval object): all coordinates get the first interval
        case["box"] = [list(box[0]) for _ in box]
        case["alias_box"] = True
    if inject_p and (part.startswith("R") or algo == "VROOM") and rng.random() < 0.5:
        case["inject"] = {"uniform_p": inject_p, "seed": int(rng.integers(1 << 30))}
    case["_cost"] = cost(case)
    return case


def cost(case):
    a, n, T = case["algo"], case["n"], case["T"]
    if a == "VROOM":
        return 1e-5 * T * n * 3 + 0.1
    if "T_HOO" in a:
        return 2e-5 * T * min(T, 400) + 0.05
    if a in ("HCT", "VHCT") or C.family(a) in ("POO", "GPO"):
        return 4e-5 * T * 10 + 0.05
    return 1e-4 * T + 0.02


def add_midqueries(rng, case, prob=0.3, k=4):
    """with probability prob: get_last_point() is also called between pull and receive_reward in up to k rounds
    (a legal interleaving of the API: the recommendation is logged while an evaluation is pending)"""
    if rng.random() >= prob or case["T"] < 8:
        return case
    a = case["algo"]
    lo = 1
    if a in ("StroquOOL", "SequOOL"):
        # StroquOOL raises before validation (known finding of C01); SequOOL.get_last_point raises IndexError while
        # the evaluation of the point just handed out is pending (outside every given property: not judged)
        return case
    if C.family(a) == "GPO":
        lo = C.gpo_N_H(case["n"], case["params"]["rhomax"])[1] + 2
    if lo >= case["T"] - 1:
        return case
    case["midqueries"] = sorted(int(x) for x in rng.integers(lo, case["T"], size=int(rng.integers(1, k + 1))))
    return case


def add_queries(rng, case, prob=0.5, dense_prob=0.3):
    """get_last_point() between rounds: at a few random rounds or (dense) after every round"""
    if rng.random() >= prob or case["T"] < 4:
        return case
    a, T = case["algo"], case["T"]
    lo = 0
    if a == "StroquOOL":
        return case
    if C.family(a) == "GPO":
        lo = C.gpo_N_H(case["n"], case["params"]["rhomax"])[1] + 1
    if lo >= T - 1:
        return case
    if rng.random() < dense_prob:
        case["queries"] = list(range(lo, T))
    else:
        case["queries"] = sorted(int(x) for x in rng.integers(lo, T, size=int(rng.integers(1, 6))))
    return case
