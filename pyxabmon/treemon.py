"""Reference monitor for the tree bandits T_HOO / HCT / VHCT (properties C04, C05, C06).

The monitor sees only (a) the client-side history of one learner - which point object each pull returned and which
reward followed - (b) the make_children events of that learner's partition and (c) the public getters of the cells.
From the history alone it recomputes what every count, reward list, mean, variance, U-value, B-value, threshold and
expansion decision must be and compares after every round.  Predicates are prefixed with the property that owns them."""
import math

from . import common as C

close = C.close


class TreeMon:
    """one instance per tree-bandit learner (stand-alone or inside POO/GPO)"""

    def __init__(self, kind, learner, P, sink, hub, tag=""):
        # P: nu, rho, n (T_HOO) | nu, rho, c, delta (HCT) | + bound (VHCT)
        self.kind, self.a, self.P, self.sink, self.hub, self.tag = kind, learner, dict(P), sink, hub, tag
        self.part = learner.partition
        self.hist = {}  # id(node) -> list of credited rewards
        self.refresh = {}  # id(node) -> ('g'|'p', counter value)
        self.rounds = 0
        self.pulled = None
        self.events = []  # expansion events since the last pull
        self.first_split_T = {}
        self.maxabs = 1.0
        self.stride = 1
        self.last_round = 10 ** 12
        if kind != "T_HOO":
            self.P["c1"] = (self.P["rho"] / (3 * self.P["nu"])) ** (1.0 / 8)
        # thresholds are judged per round, for the t+ values with c1*delta/t+ <= 1/2: there the code's min(1/2, .)
        # and the published min(1, .) coincide (c1*delta > 1/2 only affects t+ = 1, or t+ <= 2 when c1*delta > 1)
        self.in_band = True
        self.hoo_bound = self.hoo_ceils = None
        if kind == "T_HOO":
            P = self.P
            self.hoo_ceils, self.hoo_bound, self.hoo_exact_integer = C.hoo_depth_bounds(P["n"], P["nu"], P["rho"])
            if self.hoo_exact_integer:
                self.obs("hoo_bound_exactly_integer_runs")
            # "the root is always split once at construction" - whatever the depth bound says (it is negative for
            # nu*sqrt(n) <= rho)
            root = self.part.get_root()
            self.obs("hoo_initial_trees_checked")
            if self.hoo_ceils and max(self.hoo_ceils) < 0:
                self.obs("hoo_runs_with_negative_depth_bound")
            if not root.get_children() or self.part.get_depth() != 1:
                self.sink.v("C06:T_HOO_root_not_split_exactly_once_at_construction", depth=self.part.get_depth(),
                            bound=self.hoo_bound)
        for n in C.all_nodes(self.part):
            self.hist.setdefault(id(n), [])
        self.init_nodes = len(self.hist)

    # ---- helpers
    def V(self, pred, **d):
        d["learner"] = self.tag
        d["kind"] = self.kind
        self.sink.v(pred, **d)

    def obs(self, k, n=1):
        self.sink.obs[k] += n

    def on_mc(self, ev):
        if ev["part"] is not self.part:
            return
        for c in ev["children"]:
            self.hist.setdefault(id(c), [])
        self.events.append(ev)
        if ev["phase"] in ("pull", "query", "last", "midquery"):
            self.V("C06:expansion_outside_receive_reward", phase=ev["phase"], depth=ev["parent"].get_depth())

    def dt(self, tp):
        return min(1.0, self.P["c1"] * self.P["delta"] / tp)

    def band(self, tp):
        return self.P["c1"] * self.P["delta"] / tp <= 0.5

    @staticmethod
    def _mv(r):
        m = math.fsum(r) / len(r)
        return m, max(math.fsum((x - m) ** 2 for x in r) / len(r), 1e-3)

    def U(self, n, tp=None):
        r = self.hist[id(n)]
        T = len(r)
        if T == 0:
            return math.inf
        P, h = self.P, n.get_depth()
        mean, var = self._mv(r)
        if self.kind == "T_HOO":
            return mean + math.sqrt(2 * math.log(P["n"]) / T) + P["nu"] * P["rho"] ** h
        L = math.log(1 / self.dt(tp))
        if self.kind == "HCT":
            return mean + P["nu"] * P["rho"] ** h + P["c"] * math.sqrt(L / T)
        return mean + math.sqrt(2 * P["c"] ** 2 * var * L / T) + 3 * P["bound"] * P["c"] ** 2 * L / T + P["nu"] * P[
            "rho"] ** h

    def tau(self, n, tp, r=None):
        """real-valued threshold (before ceil) of cell n for t+ = tp; VHCT: with the variance of reward list r"""
        P, h = self.P, n.get_depth()
        if h == 0:
            return 0.0
        L = math.log(1 / (P["c1"] * P["delta"] / tp))
        try:
            base = P["c"] ** 2 * L * P["rho"] ** (-2 * h) / P["nu"] ** 2
        except OverflowError:
            return math.inf
        if self.kind == "VHCT":
            r = self.hist[id(n)] if r is None else r
            var = 1e-3 if not r else self._mv(r)[1]
            b = P["bound"]
            w = P["nu"] * P["rho"] ** h
            base *= var + 3 * b * w + var * math.sqrt(1 + 6 * b * w / var)
        return base

    # ---- events
    def on_pull(self, point, is_query=False):
        n = self.hub.owner(point)
        if n is None or self.hub.node_part.get(id(n)) is not self.part:
            self.V("C05:pulled_point_is_no_cell_representative", point=repr(point)[:80])
            self.pulled = None
            return
        if not is_query:
            self.pulled = n
            self.events = []
        path = C.path_to_root(n)
        if path[0] is not self.part.get_root():
            self.V("C05:pulled_cell_not_reachable_from_root", depth=n.get_depth())
            return
        i = self.rounds + 1  # value of the round counter during this pull
        self.obs("paths_checked")
        for par, ch in zip(path, path[1:]):
            kids = par.get_children() or []
            if not any(ch is k for k in kids):
                self.V("C05:path_step_is_not_a_child", depth=ch.get_depth())
                continue
            mb = max(k.get_b_value() for k in kids)
            self.obs("path_steps_checked")
            if not (ch.get_b_value() >= mb or close(ch.get_b_value(), mb)):
                self.V("C05:step_not_to_max_B_child", depth=ch.get_depth(), index=ch.get_index(),
                       b=ch.get_b_value(), max_b=mb)
            if self.kind != "T_HOO" and par.get_depth() > 0 and self.band(C.tplus(i)):
                x = self.tau(par, C.tplus(i))
                if True not in C.ge3(len(self.hist[id(par)]), x):
                    self.V("C05:passed_through_cell_below_threshold", depth=par.get_depth(),
                           T=len(self.hist[id(par)]), tau=x)
        if self.kind == "T_HOO":
            if n.get_children() is not None:
                self.V("C05:pulled_cell_is_not_a_leaf", depth=n.get_depth())
        elif n.get_children() is not None and (self.band(C.tplus(i)) or n.get_depth() == 0):
            x = self.tau(n, C.tplus(i)) if self.band(C.tplus(i)) else 0.0
            if n.get_depth() == 0 or False not in C.ge3(len(self.hist[id(n)]), x):
                self.V("C05:stopped_at_inner_cell_that_reached_threshold", depth=n.get_depth(),
                       T=len(self.hist[id(n)]), tau=x)

    def on_reward(self, reward):
        n = self.pulled
        if n is None:
            return
        i = self.rounds + 1
        pre_r = list(self.hist[id(n)])
        credited = C.path_to_root(n) if self.kind == "T_HOO" else [n]
        for c in credited:
            self.hist.setdefault(id(c), []).append(reward)
        self.rounds += 1
        if self.kind != "T_HOO":
            if i == C.tplus(i):
                for k in self.hist:
                    self.refresh[k] = ("g", i)
            self.refresh[id(n)] = ("p", i)
        self.maxabs = max(self.maxabs, abs(reward))
        scale = self.maxabs
        # long-horizon runs: the O(tree) walks happen around powers of two and every `stride` rounds, the O(1) checks
        # of the pulled cell and of the expansion decision every round
        full = self.stride <= 1 or i % self.stride == 0 or any(abs(i - (1 << k)) <= 3 for k in range(1, 40)
                                                                if (1 << k) <= i + 3) or i >= self.last_round
        nodes = C.reachable(self.part) if full else [n]
        if not full:
            self.obs("rounds_with_pulled_cell_checks_only")

        # ---------------- C04: evidence held by the tree reachable from the root == the history
        tot = 0
        for x in nodes:
            h = self.hist.get(id(x))
            if h is None:
                self.V("C04:reachable_cell_unknown_to_the_history", depth=x.get_depth(), index=x.get_index())
                continue
            tot += x.get_visited_times()
            self.obs("cells_compared")
            if x.get_visited_times() != len(h):
                self.V("C04:visit_count_differs_from_history", depth=x.get_depth(), index=x.get_index(),
                       count=x.get_visited_times(), history=len(h), pulled_depth=n.get_depth())
            elif list(x.rewards) != h:
                self.V("C04:reward_list_differs_from_history", depth=x.get_depth(), index=x.get_index())
            elif h:
                m, var = self._mv(h)
                if not close(x.get_mean_reward(), m, 1e-9, 1e-9 * max(abs(v) for v in h)):
                    self.V("C04:mean_differs_from_history", depth=x.get_depth(), mean=x.get_mean_reward(), ref=m)
                if self.kind == "VHCT":
                    sc = max(abs(v - m) for v in h) ** 2
                    if not close(float(x.variance), var, 1e-7, 1e-9 * sc):
                        self.V("C04:variance_differs_from_history", depth=x.get_depth(), var=float(x.variance),
                               ref=var)
            elif self.kind == "VHCT" and float(x.variance) != 1e-3:
                self.V("C04:variance_of_unvisited_cell_not_floor", var=float(x.variance))
        if not full:
            pass
        elif self.kind == "T_HOO":
            if self.part.get_root().get_visited_times() != self.rounds:
                self.V("C04:root_count_differs_from_rounds", root=self.part.get_root().get_visited_times(),
                       rounds=self.rounds)
        elif tot != self.rounds:
            self.V("C04:counts_do_not_sum_to_rounds", total=tot, rounds=self.rounds)

        # ---------------- C05: U against the formula, B against the recursion
        for x in nodes:
            h = self.hist.get(id(x))
            if h is None:
                continue
            u = x.get_u_value()
            if not h:
                ok = u == math.inf
            elif self.kind == "T_HOO":
                ok = close(u, self.U(x), 1e-9, 1e-9 * scale)
            else:
                kind_, r = self.refresh.get(id(x), ("n", None))
                if r is None:
                    ok = False
                else:
                    cands = [C.tplus(r)] if kind_ == "g" else [C.tplus(r), C.tplus(r + 1)]
                    ok = any(close(u, self.U(x, tp), 1e-9, 1e-9 * scale) for tp in cands)
            self.obs("u_values_compared")
            if not ok:
                self.V("C05:U_differs_from_published_formula", depth=x.get_depth(), index=x.get_index(), u=u,
                       T=len(h), refresh=self.refresh.get(id(x)),
                       ref=self.U(x, C.tplus(self.refresh.get(id(x), ("n", i))[1] or i)) if h else "inf")
                break
        for x in nodes:
            if x.get_depth() == 0:
                continue
            ch = x.get_children()
            exp = x.get_u_value() if ch is None else min(x.get_u_value(), max(c.get_b_value() for c in ch))
            self.obs("b_values_compared")
            if not close(x.get_b_value(), exp, 1e-12):
                self.V("C05:B_differs_from_recursion", depth=x.get_depth(), index=x.get_index(), b=x.get_b_value(),
                       expected=exp, leaf=ch is None)
                break

        # ---------------- C06: growth
        evs = self.events
        self.obs("rounds_growth_checked")
        if len(evs) > 1:
            self.V("C06:more_than_one_expansion_in_a_round", count=len(evs))
        for ev in evs:
            p = ev["parent"]
            self.obs("expansions_judged")
            if p is not n:
                self.V("C06:expanded_cell_is_not_the_pulled_cell", depth=p.get_depth(), pulled_depth=n.get_depth())
            if not ev["was_leaf"]:
                self.V("C06:expanded_cell_was_not_a_leaf", depth=p.get_depth(), index=p.get_index())
            for c in ev["children"]:
                if c.get_visited_times() != 0 or c.get_u_value() != math.inf or c.get_b_value() != math.inf:
                    self.V("C06:new_cell_not_fresh", T=c.get_visited_times(), u=c.get_u_value(), b=c.get_b_value())
        expanded = bool(evs)
        if self.kind == "T_HOO":
            x = self.hoo_bound
            want = {n.get_depth() <= c for c in self.hoo_ceils}
            if expanded not in want:
                self.V("C06:T_HOO_expansion_decision", depth=n.get_depth(), bound=x, expanded=expanded,
                       admissible_ceil=sorted(self.hoo_ceils))
            lim_hi = max(1, max(self.hoo_ceils) + 1)
            if self.part.get_depth() > lim_hi:
                self.V("C06:T_HOO_tree_deeper_than_bound_plus_one", depth=self.part.get_depth(), bound=x)
        else:
            was_leaf = (not expanded and n.get_children() is None) or (expanded and evs[0]["was_leaf"])
            opts = set()
            tps = [tp for tp in (C.tplus(i), C.tplus(i + 1)) if self.band(tp)]
            if len(tps) < 2 and n.get_depth() > 0:
                tps = []
                opts = {True, False}  # t+ = 1 with c1*delta > 1/2: the two clamps disagree, not judged
                self.obs("rounds_outside_the_clamp_band_not_judged")
            for tp in tps:
                for rr in ((pre_r, self.hist[id(n)]) if self.kind == "VHCT" else (None,)):
                    x = self.tau(n, tp, rr)
                    for g in C.ge3(len(self.hist[id(n)]), x):
                        opts.add(bool(was_leaf and g))
            if n.get_depth() == 0:
                opts = {was_leaf}
            if expanded not in opts:
                self.V("C06:HCT_expansion_decision", depth=n.get_depth(), T=len(self.hist[id(n)]),
                       expanded=expanded, admissible=sorted(opts), tau=self.tau(n, C.tplus(i)), was_leaf=was_leaf)
            if expanded:
                self.first_split_T[id(n)] = len(self.hist[id(n)])

    def finish(self):
        d = self.part.get_depth()
        self.sink.obs["max_tree_depth"] = max(self.sink.obs.get("max_tree_depth", 0), d)


def near(x):
    return C.near_int(x)


def tree_params(case_algo, P, n):
    """parameters of a stand-alone tree bandit from the case descriptor"""
    if case_algo == "T_HOO":
        return {"nu": P["nu"], "rho": P["rho"], "n": n}
    if case_algo == "HCT":
        return {"nu": P["nu"], "rho": P["rho"], "c": P["c"], "delta": P["delta"]}
    return {"nu": P["nu"], "rho": P["rho"], "c": P["c"], "delta": P["delta"], "bound": P["bound"]}
