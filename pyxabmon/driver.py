"""The driver: runs the documented ask/tell loop of the real code for one case descriptor, records the client-side
history (ledger) at the API boundary and calls the monitors at every quiescent point."""
import collections
import copy
import os
import signal
import traceback

import numpy as np

from . import common as C


class Watchdog(BaseException):
    pass


def _alarm(signum, frame):
    raise Watchdog()


class Monitor:
    """base class; a monitor records violations of *named predicates* and counts what it observed"""

    MAX_VIOL = 6

    def __init__(self):
        self.viol = []
        self.obs = collections.Counter()
        self.ctx = None

    own = None  # prefix of the property this run is judged for (shared monitors serve several properties)

    def v(self, pred, **detail):
        if self.own and ":" in pred and not pred.startswith(self.own + ":"):
            return  # another property's predicate: must not use up this run's report budget nor cut the run short
        if len(self.viol) < self.MAX_VIOL:
            self.viol.append({"pred": pred, "round": self.ctx.round if self.ctx else None,
                              "detail": C.jsonable(detail)})

    def full(self):
        return len(self.viol) >= self.MAX_VIOL

    # life-cycle callbacks (all optional)
    def start(self, ctx):
        pass

    def before_pull(self, ctx, t):
        pass

    def on_pull(self, ctx, t, point):
        pass

    def on_reward(self, ctx, t, r):
        pass

    def choose_reward(self, ctx, t, p, r):
        """hostile environments: a monitor may replace the reward about to be delivered (return a float) - e.g. by one
        that makes two optimistic values tie exactly; None keeps r"""
        return None

    def before_query(self, ctx):
        pass

    def on_query(self, ctx, point):
        pass

    def on_last(self, ctx, point):
        pass

    def finish(self, ctx):
        pass


class Ctx:
    def __init__(self, case, hub):
        self.case = case
        self.hub = hub
        self.box = copy.deepcopy(case["box"])  # the user's box, never handed to PyXAB
        self.algo = None
        self.ledger = []  # dicts: i (0-based round), t (label), point (copy), point_obj, cell, reward
        self.round = 0  # completed rounds
        self.crash = None
        self.points = []  # copies of every pulled point
        self.last = None
        self.budget = None
        self.stopped = None  # reason the loop ended early (not a crash), e.g. a monitor asked to stop
        self.extra = {}


def labels_of(case):
    T = case["T"]
    L = case.get("labels")
    if not L:
        return list(range(1, T + 1))
    k = L["kind"]
    if k == "offset":
        return [L["t0"] + i for i in range(T)]
    if k == "double":
        return [2 * (i + 1) for i in range(T)]
    if k == "random":
        rng = np.random.default_rng([int(L["seed"]), 31337])
        return [int(x) for x in np.cumsum(rng.integers(1, 50, size=T))]
    raise KeyError(k)


class RNGInjection:
    """wraps np.random.uniform / randint for the duration of a run: with probability p a *legal* outcome that is
    hostile is returned instead (an end point of the interval or its float neighbour).  The real generator is still
    advanced, so the rest of the run stays reproducible."""

    def __init__(self, spec):
        self.spec = spec or {}
        self.n_inj = 0
        self.n_calls = 0

    def __enter__(self):
        self.ou, self.oi = np.random.uniform, np.random.randint
        if not self.spec:
            return self
        inj = np.random.default_rng([int(self.spec.get("seed", 0)), 65537])
        p = float(self.spec.get("uniform_p", 0.0))
        ou = self.ou
        me = self

        def uniform(low=0.0, high=1.0, size=None):
            v = ou(low, high, size)
            me.n_calls += 1
            if size is None and p > 0:
                r = inj.random()
                if r < p:
                    me.n_inj += 1
                    q = int(inj.integers(4))
                    if q == 0:
                        return low
                    if q == 1:
                        # np.random.uniform draws from [low, high); `high` itself is returned by NumPy when
                        # low + (high-low)*u rounds up, so it is a legal outcome
                        return high
                    if q == 2:
                        return float(np.nextafter(low, high))
                    return float(np.nextafter(high, low))
            return v

        np.random.uniform = uniform
        return self

    def __exit__(self, *a):
        np.random.uniform, np.random.randint = self.ou, self.oi
        return False


def crash_info(e, phase, rnd):
    tb = traceback.extract_tb(e.__traceback__)
    site = None
    chain = []
    for fr in tb:
        if fr.filename.startswith(C.PKG):
            chain.append("%s:%s" % (fr.filename[len(C.PKG) + 1:], fr.name))
    # who raised?  walk from the innermost frame outwards: the first frame that belongs to PyXAB or to the harness
    # decides (numpy / stdlib frames are skipped; harness frames that merely *call* PyXAB are outer frames and are
    # never reached).
    mon_dir = os.path.dirname(os.path.realpath(__file__))
    for fr in reversed(tb):
        if fr.filename.startswith(C.PKG):
            site = "%s:%s" % (fr.filename[len(C.PKG) + 1:], fr.name)
            break
        if os.path.realpath(fr.filename).startswith(mon_dir):
            if fr.name == "uniform":  # the RNG-injection wrapper only forwards PyXAB's arguments to NumPy
                continue
            site = None
            break
    return {"phase": phase, "round": rnd, "exc": type(e).__name__, "msg": str(e)[:160], "site": site,
            "chain": chain[-4:], "line": tb[-1].lineno if tb else None}


def drive(case, monitors, learner_cls=None, step_limit=10 ** 7, wall_s=600, use_budget=True, part_cls=None,
          lines=False, build_cm=None, own=None):
    """returns ctx.  Exceptions raised by PyXAB are recorded in ctx.crash (phase, round, type, innermost PyXAB
    frame); the monitors see everything that happened before."""
    hub = C.Hub()
    ctx = Ctx(case, hub)
    for m in monitors:
        m.ctx = ctx
        m.own = own
        hub.listeners.append(m)
    budget = C.StepBudget(step_limit, lines=lines) if use_budget else None
    ctx.budget = budget
    fn = C.reward_fn(case)
    labels = labels_of(case)
    queries = collections.Counter(case.get("queries") or [])
    midq = collections.Counter(case.get("midqueries") or [])
    P = part_cls or C.make_part_class(case["part"], hub)
    hub.part_cls = P
    old = signal.signal(signal.SIGALRM, _alarm)
    wall_s = float(os.environ.get("PYXABMON_WALL_S") or wall_s)  # (test knob for the retry pass of the runner)
    signal.alarm(int(wall_s * float(os.environ.get("PYXABMON_WALL_SCALE", "1") or 1)))
    phase = "init"
    inj = RNGInjection(case.get("inject"))
    ctx.inj = inj
    try:
        with inj:
            try:
                np.random.seed(case["np_seed"])
                if budget:
                    budget.on()
                    budget.reset()
                hub.phase = "init"
                if build_cm is not None:
                    with build_cm:
                        ctx.algo = C.build(case, P, learner_cls)
                else:
                    ctx.algo = C.build(case, P, learner_cls)
                if budget:
                    budget.note()
                for m in monitors:
                    m.start(ctx)
                for i, t in enumerate(labels):
                    hub.round = i
                    phase = hub.phase = "pull"
                    for m in monitors:
                        m.before_pull(ctx, t)
                    if budget:
                        budget.reset()
                    p = ctx.algo.pull(t)
                    if budget:
                        budget.note()
                    hub.phase = "idle"
                    ctx.points.append(copy.deepcopy(p) if isinstance(p, (list, tuple)) else p)
                    entry = {"i": i, "t": t, "point_obj": p, "point": ctx.points[-1], "cell": hub.owner_or_none(p),
                             "reward": None}
                    ctx.ledger.append(entry)
                    for m in monitors:
                        m.on_pull(ctx, t, p)
                    if not isinstance(p, (list, tuple)):
                        ctx.stopped = "pull returned %r" % (type(p).__name__,)
                        break
                    for _ in range(midq.get(i, 0)):
                        # a recommendation query while the evaluation of the pulled point is still pending
                        phase = hub.phase = "midquery"
                        ctx.extra["mid"] = True
                        for m in monitors:
                            m.before_query(ctx)
                        if budget:
                            budget.reset()
                        q = ctx.algo.get_last_point()
                        if budget:
                            budget.note()
                        for m in monitors:
                            m.on_query(ctx, q)
                        ctx.extra["mid"] = False
                        hub.phase = "idle"
                    r = fn(i, p)
                    for m in monitors:
                        r2 = m.choose_reward(ctx, t, p, r)
                        if r2 is not None:
                            r = r2
                    entry["reward"] = r
                    phase = hub.phase = "reward"
                    if budget:
                        budget.reset()
                    ctx.algo.receive_reward(t, r)
                    if budget:
                        budget.note()
                    hub.phase = "idle"
                    ctx.round = i + 1
                    for m in monitors:
                        m.on_reward(ctx, t, r)
                    for _ in range(queries.get(i, 0)):
                        phase = hub.phase = "query"
                        for m in monitors:
                            m.before_query(ctx)
                        if budget:
                            budget.reset()
                        try:
                            q = ctx.algo.get_last_point()
                        except Exception:
                            if not case.get("tolerate_query_errors"):
                                raise
                            # a recommendation asked too early raises (known findings of C01); the run goes on
                            ctx.extra["queries_raising"] = ctx.extra.get("queries_raising", 0) + 1
                            hub.phase = "idle"
                            continue
                        if budget:
                            budget.note()
                        hub.phase = "idle"
                        for m in monitors:
                            m.on_query(ctx, q)
                    if any(m.full() for m in monitors):
                        ctx.stopped = "monitor full"
                        break
                if (ctx.stopped is None or (case.get("last_after_none") and str(ctx.stopped).startswith("pull returned"))) \
                        and not case.get("no_last"):
                    phase = hub.phase = "last"
                    for m in monitors:
                        m.before_query(ctx)
                    if budget:
                        budget.reset()
                    ctx.last = ctx.algo.get_last_point()
                    if budget:
                        budget.note()
                    hub.phase = "idle"
                    for m in monitors:
                        m.on_last(ctx, ctx.last)
            except C.AmbiguousPoint:
                ctx.stopped = "ambiguous point identity"
                ctx.extra["ambiguous"] = True
            except C.StepBudgetExceeded as e:
                ctx.crash = {"phase": phase, "round": ctx.round, "exc": "StepBudgetExceeded", "msg": str(e),
                             "site": None, "chain": [], "hang": True}
            except Watchdog:
                ctx.crash = {"phase": phase, "round": ctx.round, "exc": "Watchdog", "msg": "wall clock", "site": None,
                             "chain": [], "watchdog": True}
            except Exception as e:  # raised by PyXAB (or by a monitor: then the site is outside PKG)
                ctx.crash = crash_info(e, phase, ctx.round)
                if ctx.crash["site"] is None:
                    # not a PyXAB frame at all: a bug in the harness; never report it as a violation
                    ctx.crash["harness"] = True
                    ctx.crash["tb"] = traceback.format_exc()[-1500:]
    finally:
        signal.alarm(0)
        signal.signal(signal.SIGALRM, old)
        if budget:
            budget.off()
    ctx.extra["inj"] = inj.n_inj
    if ctx.crash is None or not (ctx.crash.get("watchdog") or ctx.crash.get("harness")):
        hub.phase = "finish"
        for m in monitors:
            try:
                m.finish(ctx)
            except Exception:
                ctx.crash = {"phase": "finish", "round": ctx.round, "exc": "HarnessError", "msg": "",
                             "site": None, "chain": [], "harness": True, "tb": traceback.format_exc()[-1500:]}
    return ctx


def result_of(ctx, monitors, owner_of_crashes=False, nontrivial=None, prefix=None):
    """fold a finished run into the JSON result the runner aggregates.  A crash of PyXAB is a violation only for the
    check that owns totality (C01); every other check notes it and judges what it saw before the crash."""
    res = {"viol": [], "obs": collections.Counter()}
    cr = ctx.crash
    if cr is not None:
        if cr.get("harness"):
            return {"harness": cr.get("tb") or cr.get("msg")}
        if cr.get("watchdog"):
            return {"watchdog": True}
        if owner_of_crashes:
            pred = "hangs" if cr.get("hang") else "raises"
            res["viol"].append({"pred": pred, "round": cr["round"], "detail": {
                "exc": cr["exc"], "site": cr["site"], "phase": cr["phase"], "msg": cr["msg"], "chain": cr["chain"]}})
        else:
            res["crash_other"] = "%s:%s:%s" % (ctx.case.get("algo"), cr["exc"], cr["site"])
    for m in monitors:
        for v in m.viol:
            # shared runs, separate verdicts: a predicate owned by another property is ignored by this check
            if prefix is None or ":" not in v["pred"] or v["pred"].startswith(prefix + ":"):
                res["viol"].append(v)
        res["obs"].update(m.obs)
    res["obs"]["rounds"] += ctx.round
    res["obs"]["expansions_seen"] += ctx.hub.n_mc
    if ctx.budget is not None:
        res["obs"]["max_steps_per_call"] = ctx.budget.max_seen
    if ctx.extra.get("inj"):
        res["obs"]["rng_outcomes_injected"] += ctx.extra["inj"]
    if ctx.extra.get("queries_raising"):
        res["obs"]["early_queries_raising_ignored"] += ctx.extra["queries_raising"]
    if ctx.extra.get("ambiguous"):
        res["obs"]["runs_stopped_ambiguous_point_identity"] += 1
    if ctx.hub.value_resolved:
        res["obs"]["points_resolved_by_value"] += ctx.hub.value_resolved
    res["obs"] = dict(res["obs"])
    res["nontrivial"] = bool(nontrivial(ctx, res) if nontrivial else ctx.round >= 10)
    return res
