"""C11 - Zooming: coverage by active arms, max-index arm, refinement rule.  The arm is identified by the identity of
the point list returned by pull; mean / pull count come from the ledger, the phase from the reference doubling
schedule (phase i lasts 2^i rounds)."""
import math

from . import common as C
from .driver import Monitor

close = C.close


class ZoomMon(Monitor):
    def __init__(self):
        super().__init__()
        self.led = {}
        self.phase, self.next_end, self.time = 1, 2, 0
        self.ev = []

    def start(self, ctx):
        P = ctx.case["params"]
        self.nu, self.rho = P["nu"], P["rho"]
        self.part = ctx.algo.partition
        self._coverage(ctx, "after construction")

    def after_mc(self, ev):
        self.ev.append(ev)
        if ev["phase"] in ("pull", "query", "last", "midquery"):
            self.v("C11:cell_refined_outside_receive_reward", phase=ev["phase"])

    def idx(self, arm):
        h = self.led.get(id(arm.get_point()), [])
        m = math.fsum(h) / len(h) if h else 0.0
        return m + 2 * math.sqrt(8 * self.phase / (2 + len(h)))

    def on_pull(self, ctx, t, p, query=False):
        a = ctx.algo
        arms = {}
        for k in a.active_points:
            arms.setdefault(id(k.get_point()), []).append(k)
        self.obs["zoom_pulls_checked"] += 1
        if id(p) not in arms:
            self.v("C11:pulled_point_is_not_an_active_arm", point=repr(p)[:80])
            self.arm = None
            return
        if len(arms[id(p)]) > 1:
            self.obs["ambiguous_arm_identity"] += 1
            self.arm = None
            return
        arm = arms[id(p)][0]
        vals = [self.idx(k) for k in a.active_points]
        best = max(vals)
        self.obs["indices_compared"] += len(vals)
        mine = self.idx(arm)
        if not (mine >= best or close(mine, best)):
            self.v("C11:pulled_arm_does_not_maximise_the_index", index=mine, best=best, phase=self.phase,
                   arms=len(vals))
        if not query:
            self.arm = arm
            self.cell = a.active_points[arm]
            self.ev = []

    def on_query(self, ctx, p):
        self.on_pull(ctx, None, p, query=True)

    def on_last(self, ctx, p):
        self.on_pull(ctx, None, p, query=True)

    def on_reward(self, ctx, t, r):
        a = ctx.algo
        if self.arm is None:
            return
        arm, cell = self.arm, self.cell
        h = self.led.setdefault(id(arm.get_point()), [])
        h.append(r)
        self.time += 1
        if self.time >= self.next_end:
            self.phase += 1
            self.next_end += 2 ** self.phase
        if a.pulled_times.get(arm) != len(h) or not close(float(a.average_rewards.get(arm)), math.fsum(h) / len(h),
                                                           1e-9, 1e-9 * max(abs(v) for v in h)):
            self.v("C11:arm_statistics_differ_from_its_own_history", count=a.pulled_times.get(arm), pulls=len(h),
                   mean=float(a.average_rewards.get(arm)), ref=math.fsum(h) / len(h))
        admissible, rad, thr = C.radius_le_threshold(self.phase, len(h), self.nu, self.rho, cell.get_depth())
        mine = [e for e in self.ev if e["part"] is self.part]
        self.obs["refinement_decisions_checked"] += 1
        if len(mine) > 1:
            self.v("C11:more_than_one_refinement_in_a_round", count=len(mine))
        refined = len(mine) >= 1
        if rad == thr:
            self.obs["refinement_decisions_at_exact_equality"] += 1
        if refined not in admissible:
            self.v("C11:refinement_decision_differs_from_the_rule", radius=rad, threshold=thr, refined=refined,
                   depth=cell.get_depth(), pulls=len(h), phase=self.phase)
        if refined:
            self.obs["refinements_seen"] += 1
            e = mine[0]
            if e["parent"] is not cell:
                self.v("C11:refined_cell_is_not_the_pulled_arms_cell", depth=e["parent"].get_depth())
            elif not e["was_leaf"]:
                self.v("C11:refined_cell_was_not_a_leaf")
            else:
                kids = e["children"]
                owners = {id(c): [k for k, v in a.active_points.items() if v is c] for c in kids}
                keep = [c for c in kids if any(k is arm for k in owners[id(c)])]
                if len(keep) != 1:
                    self.v("C11:old_arm_not_held_by_exactly_one_child", holders=len(keep))
                for c in kids:
                    ks = owners[id(c)]
                    if len(ks) != 1:
                        self.v("C11:child_without_exactly_one_arm", arms=len(ks), depth=c.get_depth(),
                               index=c.get_index(), children=len(kids))
                        break
                    if ks[0] is not arm and list(ks[0].get_point()) != list(c.get_cpoint()):
                        self.v("C11:new_arm_is_not_at_the_childs_centre")
                        break
                if any(v is cell for v in a.active_points.values()):
                    self.v("C11:refined_cell_still_holds_an_arm")
        self._coverage(ctx, "after receive_reward")

    def _coverage(self, ctx, where):
        a = ctx.algo
        act = set(map(id, a.active_points.values()))
        for k, c in a.active_points.items():
            why = C.inbox_problem(k.get_point(), c.get_domain())
            if why:
                self.v("C11:arm_outside_the_cell_it_is_responsible_for", why=why, at=where)
                break
        self.obs["coverage_walks"] += 1
        for x in C.reachable(self.part):
            if x.get_children():
                continue
            y = x
            while y is not None and id(y) not in act:
                y = y.get_parent()
            self.obs["leaves_checked_for_coverage"] += 1
            if y is None:
                self.v("C11:region_without_an_active_arm", depth=x.get_depth(), index=x.get_index(),
                       box=x.get_domain(), at=where)
                break

    def finish(self, ctx):
        self.obs["max_arms"] = max(self.obs.get("max_arms", 0), len(ctx.algo.active_points))
        self.obs["max_tree_depth"] = self.part.get_depth()
