"""Shared machinery: importing the real code from /repo, instrumented partition classes (subclass injection, no
hooks in the repository), algorithm factory from a JSON case descriptor, reward families, logical step budget,
numeric helpers."""
import copy
import json
import math
import os
import sys

REPO = os.path.realpath(os.environ.get("PYXAB_REPO", "/repo"))
VERIF = os.path.dirname(os.path.dirname(os.path.realpath(__file__)))
DEPS = os.path.join(VERIF, ".deps")
sys.dont_write_bytecode = True
if REPO not in sys.path:
    sys.path.insert(0, REPO)
if os.path.isdir(DEPS) and DEPS not in sys.path:
    sys.path.append(DEPS)

import numpy as np  # noqa: E402
import PyXAB  # noqa: E402

PKG = os.path.realpath(os.path.dirname(PyXAB.__file__))
if not PKG.startswith(REPO + os.sep):
    raise SystemExit("pyxabmon: PyXAB imported from %s, not from %s" % (PKG, REPO))

from PyXAB.partition.BinaryPartition import BinaryPartition  # noqa: E402
from PyXAB.partition.RandomBinaryPartition import RandomBinaryPartition  # noqa: E402
from PyXAB.partition.DimensionBinaryPartition import DimensionBinaryPartition  # noqa: E402
from PyXAB.partition.KaryPartition import KaryPartition  # noqa: E402
from PyXAB.partition.RandomKaryPartition import RandomKaryPartition  # noqa: E402
from PyXAB.algos.HOO import T_HOO  # noqa: E402
from PyXAB.algos.HCT import HCT  # noqa: E402
from PyXAB.algos.VHCT import VHCT  # noqa: E402
from PyXAB.algos.POO import POO  # noqa: E402
from PyXAB.algos.GPO import GPO  # noqa: E402
from PyXAB.algos.PCT import PCT  # noqa: E402
from PyXAB.algos.VPCT import VPCT  # noqa: E402
from PyXAB.algos.DOO import DOO  # noqa: E402
from PyXAB.algos.SOO import SOO  # noqa: E402
from PyXAB.algos.StoSOO import StoSOO  # noqa: E402
from PyXAB.algos.SequOOL import SequOOL  # noqa: E402
from PyXAB.algos.StroquOOL import StroquOOL  # noqa: E402
from PyXAB.algos.VROOM import VROOM  # noqa: E402
from PyXAB.algos.Zooming import Zooming  # noqa: E402

# ---------------------------------------------------------------------------------------------------------------
# numeric helpers


def close(a, b, rt=1e-9, at=1e-12):
    """equality up to relative 1e-9 (infinities must match exactly)"""
    if a == b:
        return True
    try:
        if math.isinf(a) or math.isinf(b) or math.isnan(a) or math.isnan(b):
            return False
    except TypeError:
        return False
    return abs(a - b) <= at + rt * max(abs(a), abs(b))


def near_int(x, rt=1e-9):
    return math.isfinite(x) and abs(x - round(x)) <= rt * max(1.0, abs(x))


def ceil3(x):
    """three-valued ceil: the set of admissible integer values of ceil(x) when x is only known to rel. 1e-9"""
    if not math.isfinite(x):
        return {x}
    if near_int(x):
        r = int(round(x))
        return {r, r + 1}
    return {math.ceil(x)}


def ge3(count, x):
    """three-valued `count >= ceil(x)`: set of admissible truth values"""
    return {count >= c for c in ceil3(x)}


def le3(a, b, rt=1e-9):
    """three-valued a <= b for floats known to rel. rt"""
    if close(a, b, rt):
        return {True, False}
    return {a <= b}


def hoo_depth_bounds(n, nu, rho):
    """admissible values of ceil((ln(n)/2 - ln(1/nu)) / ln(1/rho)).  Away from integers this is one value.  Within
    1e-9 of an integer D the sign of x - D is decided exactly in rational arithmetic (x > D  <=>  nu^2 n rho^(2D) > 1);
    the value obtained by evaluating the published expression in floating point is accepted as well, so neither an
    exact nor a float implementation of the published rule can raise an alarm."""
    import numpy as _np
    from fractions import Fraction as F
    x = (math.log(n) / 2 - math.log(1 / nu)) / math.log(1 / rho)
    if not near_int(x):
        return {math.ceil(x)}, x, False
    D = int(round(x))
    q = F(nu) ** 2 * n * F(rho) ** (2 * D)
    exact = D + 1 if q > 1 else D
    xf = (_np.log(n) / 2 - _np.log(1 / nu)) / _np.log(1 / rho)
    return {exact, int(_np.ceil(xf)), math.ceil(x)}, x, q == 1


def radius_le_threshold(phase, pulls, nu, rho, depth):
    """admissible truth values of sqrt(8 phase/(2+pulls)) <= nu rho^depth: the float evaluation, plus - when the two
    sides are within 1e-9 - the exact rational comparison of the squares"""
    import numpy as _np
    from fractions import Fraction as F
    rad = math.sqrt(8 * phase / (2 + pulls))
    thr = nu * rho ** depth
    out = {bool(_np.sqrt(8 * phase / (2 + pulls)) <= nu * rho ** depth), rad <= thr}
    if close(rad, thr, 1e-9):
        out.add(F(8 * phase, 2 + pulls) <= (F(nu) * F(rho) ** depth) ** 2)
    return out, rad, thr


def tplus(i):
    """2**ceil(log2 i) for integer i >= 1, computed exactly"""
    k = 0
    while (1 << k) < i:
        k += 1
    return 1 << k


def jsonable(x):
    if isinstance(x, dict):
        return {str(k): jsonable(v) for k, v in x.items()}
    if isinstance(x, (list, tuple, set, frozenset)):
        return [jsonable(v) for v in x]
    if isinstance(x, (np.integer,)):
        return int(x)
    if isinstance(x, (np.floating,)):
        x = float(x)
    if isinstance(x, float):
        if math.isnan(x) or math.isinf(x):
            return repr(x)
        return x
    if isinstance(x, (np.bool_,)):
        return bool(x)
    if isinstance(x, (str, int, bool)) or x is None:
        return x
    return repr(x)[:200]


# ---------------------------------------------------------------------------------------------------------------
# partitions: name -> (real class, K); instrumented subclasses report every make_children to a Hub

PART_SPECS = {
    "Bin": (BinaryPartition, None),
    "RBin": (RandomBinaryPartition, None),
    "DimBin": (DimensionBinaryPartition, None),
}
for _K in (2, 3, 4, 5):
    PART_SPECS["K%d" % _K] = (KaryPartition, _K)
    PART_SPECS["RK%d" % _K] = (RandomKaryPartition, _K)
PART_NAMES = list(PART_SPECS)
# larger arities: used by the partition-only workloads of C02/C03 (the properties quantify over all K >= 2)
for _K in (6, 7, 8, 10, 16, 32, 64):
    PART_SPECS["K%d" % _K] = (KaryPartition, _K)
    PART_SPECS["RK%d" % _K] = (RandomKaryPartition, _K)
PART_NAMES_WIDE = list(PART_SPECS)
EQUAL_SIZE = {"Bin", "DimBin", "K2", "K3", "K4", "K5", "K6", "K7", "K8", "K10", "K16", "K32", "K64"}
MIDPOINT_PARTS = ["Bin", "DimBin", "K2", "K4"]  # the pulled centre lies on a face between children
BINARY_PARTS = ["Bin", "RBin", "K2", "RK2"]
RNG_FREE_1D = ["Bin", "DimBin", "K2", "K3", "K4", "K5"]  # no random numbers consumed when d == 1


def arity(part_name, dim):
    if part_name == "DimBin":
        return 2 ** dim
    base, K = PART_SPECS[part_name]
    return 2 if K is None else K


class AmbiguousPoint(BaseException):
    """a returned point is value-equal to the representatives of several cells and is not one of their list objects:
    the run cannot be judged any further (inconclusive for that run, never a violation)"""


class Hub:
    """Receives every partition construction and every make_children call of the instrumented classes."""

    def __init__(self):
        self.partitions = []
        self.cp_owner = {}  # id(c_point list object) -> node (nodes are kept alive here, so ids stay unique)
        self.node_part = {}  # id(node) -> partition
        self.nodes = {}  # id(node) -> node
        self.phase = "init"
        self.round = 0
        self.mc_events = []  # dicts: phase, round, part, parent, was_leaf, newlayer, children
        self.listeners = []
        self.n_mc = 0
        self.by_value = {}  # tuple(c_point) -> [nodes]
        self.value_resolved = 0

    def _reg(self, part, node):
        self.nodes[id(node)] = node
        self.node_part[id(node)] = part
        self.cp_owner[id(node.get_cpoint())] = node
        try:
            self.by_value.setdefault(tuple(float(x) for x in node.get_cpoint()), []).append(node)
        except (TypeError, ValueError):
            pass

    def _on_partition(self, part):
        self.partitions.append(part)
        self._reg(part, part.get_root())
        for l in self.listeners:
            f = getattr(l, "on_partition", None)
            if f:
                f(part)

    def _before(self, part, parent, newlayer):
        ev = {
            "phase": self.phase,
            "round": self.round,
            "part": part,
            "parent": parent,
            "was_leaf": parent.get_children() is None,
            "newlayer": newlayer,
            "depth_before": part.get_depth(),
        }
        for l in self.listeners:
            f = getattr(l, "before_mc", None)
            if f:
                f(ev)
        return ev

    def _after(self, ev):
        part, parent = ev["part"], ev["parent"]
        kids = parent.get_children()
        ev["children"] = list(kids) if kids is not None else []
        for c in ev["children"]:
            self._reg(part, c)
        self.n_mc += 1
        self.mc_events.append(ev)
        for l in self.listeners:
            f = getattr(l, "after_mc", None)
            if f:
                f(ev)

    def owner_or_none(self, point):
        try:
            return self.owner(point)
        except AmbiguousPoint:
            return None

    def owner(self, point):
        """the cell whose representative `point` is: by identity of the list object (exact, also when the middle
        child of an odd-K split shares its parent's centre); if the implementation hands out a copy, by value when
        that is unambiguous; AmbiguousPoint if several cells share that centre; None if no cell has it"""
        n = self.cp_owner.get(id(point))
        if n is not None:
            return n
        try:
            cands = self.by_value.get(tuple(float(x) for x in point), [])
        except (TypeError, ValueError):
            return None
        if len(cands) == 1:
            self.value_resolved += 1
            return cands[0]
        if len(cands) > 1:
            raise AmbiguousPoint()
        return None


_PART_CACHE = {}


def make_part_class(name, hub):
    """A subclass of the real partition class (so every line of the real make_children runs) that reports to hub.
    Takes (domain, node) like the classes the algorithms expect; K is bound here."""
    base, K = PART_SPECS[name]

    class _P(base):
        _mon_name = name
        _mon_hub = hub

        def __init__(self, domain=None, node=None):
            kw = {}
            if K is not None:
                kw["K"] = K
            if node is not None:
                kw["node"] = node
            super().__init__(domain=domain, **kw)
            self._mon_hub._on_partition(self)

        def make_children(self, parent, newlayer=False):
            ev = self._mon_hub._before(self, parent, newlayer)
            r = super().make_children(parent, newlayer=newlayer)
            self._mon_hub._after(ev)
            return r

    _P.__name__ = base.__name__
    _P.__qualname__ = base.__qualname__
    return _P


def plain_part_class(name, binding=None):
    """uninstrumented: just binds K (used by the metamorphic checks).  binding == 'partial': K is bound with
    functools.partial on the library's own class (the way a user gets an arity other than the default without
    writing a subclass) - two such partitions with different K share one class object"""
    base, K = PART_SPECS[name]
    if K is None:
        return base
    if binding == "partial":
        import functools
        return functools.partial(base, K=K)

    class _P(base):
        def __init__(self, domain=None, node=None):
            kw = {"K": K}
            if node is not None:
                kw["node"] = node
            super().__init__(domain=domain, **kw)

    _P.__name__ = base.__name__
    return _P


# ---------------------------------------------------------------------------------------------------------------
# algorithms

BASE_LEARNERS = {"T_HOO": T_HOO, "HCT": HCT, "VHCT": VHCT}
ALGOS = [
    "T_HOO", "HCT", "VHCT",
    "POO_T_HOO", "POO_HCT", "POO_VHCT",
    "GPO_T_HOO", "GPO_HCT", "GPO_VHCT", "PCT", "VPCT",
    "DOO", "DOO_delta", "SOO", "StoSOO", "SequOOL", "StroquOOL", "VROOM", "Zooming",
]
TREE_BANDITS = ["T_HOO", "HCT", "VHCT"]
WRAPPERS = ["POO_T_HOO", "POO_HCT", "POO_VHCT", "GPO_T_HOO", "GPO_HCT", "GPO_VHCT", "PCT", "VPCT"]

USER_DELTAS = {
    "pow2": lambda h: 2.0 ** (-h),
    "inv": lambda h: 1.0 / (h + 1.0),
    "const": lambda h: 0.5,
    "pow09": lambda h: 3.0 * 0.9 ** h,
    # legal but not monotone in the depth (nothing in the API requires a decreasing delta)
    "stair": lambda h: 0.5 ** (h // 2) * (1.2 if h % 2 else 1.0),
    "wave": lambda h: 1.0 + 0.5 * math.sin(1.7 * h),
    "rise": lambda h: min(2.0, 0.1 * (h + 1)),
}


def family(algo):
    if algo.startswith("POO"):
        return "POO"
    if algo.startswith("GPO") or algo in ("PCT", "VPCT"):
        return "GPO"
    if algo.startswith("DOO"):
        return "DOO"
    return algo


def gpo_N_H(n, rhomax):
    """the published N and H of GPO computed in plain math (reference, independent of numpy)"""
    Dmax = math.log(2) / math.log(1 / rhomax)
    x = 0.5 * Dmax * math.log((n / 2) / math.log(n / 2))
    N = math.ceil(x)
    H = math.floor(n / (2 * N)) if N > 0 else 0
    return N, H, x


def build(case, part_cls, learner_cls=None, box_obj=None):
    """construct the real algorithm from a case descriptor; `case['box']` is deep-copied so that the user's box
    stays available for comparison"""
    a = case["algo"]
    P = case.get("params", {})
    n = case["n"]
    dom = box_obj if box_obj is not None else copy.deepcopy(case["box"])
    if case.get("alias_box") and box_obj is None:
        # the common idiom domain = [[lo, hi]] * d: one interval list object stands for every coordinate
        dom = [dom[0]] * len(dom)
    if a == "T_HOO":
        return T_HOO(nu=P["nu"], rho=P["rho"], rounds=n, domain=dom, partition=part_cls)
    if a == "HCT":
        return HCT(nu=P["nu"], rho=P["rho"], c=P["c"], delta=P["delta"], domain=dom, partition=part_cls)
    if a == "VHCT":
        return VHCT(nu=P["nu"], rho=P["rho"], c=P["c"], delta=P["delta"], bound=P["bound"], domain=dom,
                    partition=part_cls)
    if a.startswith("POO_"):
        L = learner_cls or BASE_LEARNERS[a[4:]]
        return POO(numax=P["nu"], rhomax=P["rhomax"], rounds=n, domain=dom, partition=part_cls, algo=L)
    if a.startswith("GPO_"):
        L = learner_cls or BASE_LEARNERS[a[4:]]
        return GPO(numax=P["nu"], rhomax=P["rhomax"], rounds=n, domain=dom, partition=part_cls, algo=L)
    if a == "PCT":
        return PCT(numax=P["nu"], rhomax=P["rhomax"], rounds=n, domain=dom, partition=part_cls)
    if a == "VPCT":
        return VPCT(numax=P["nu"], rhomax=P["rhomax"], rounds=n, domain=dom, partition=part_cls)
    if a == "DOO":
        return DOO(n=n, domain=dom, partition=part_cls)
    if a == "DOO_delta":
        return DOO(n=n, delta=USER_DELTAS[P["delta_fn"]], domain=dom, partition=part_cls)
    if a == "SOO":
        return SOO(n=n, h_max=P["h_max"], domain=dom, partition=part_cls)
    if a == "StoSOO":
        return StoSOO(n=n, k=P.get("k"), h_max=P["h_max"], delta=P.get("delta"), domain=dom, partition=part_cls)
    if a == "SequOOL":
        return SequOOL(n=n, domain=dom, partition=part_cls)
    if a == "StroquOOL":
        return StroquOOL(n=n, domain=dom, partition=part_cls)
    if a == "VROOM":
        return VROOM(n=n, h_max=P["h_max"], b=P["b"], f_max=P["f_max"], domain=dom, partition=part_cls)
    if a == "Zooming":
        return Zooming(nu=P["nu"], rho=P["rho"], domain=dom, partition=part_cls)
    raise KeyError(a)


def stosoo_k(n, k):
    return math.ceil(n / (math.log(n) ** 3)) if k is None else k


def cells_upto(K, h):
    return sum(K ** i for i in range(h + 1))


def smallest_cap(algo, K, n, k=1):
    """smallest depth cap whose tree can hold the budget (see DESIGN 2: SOO/StoSOO spin or return None once the
    cells above the cap are used up; C01 quantifies over caps large enough to hold the budget)"""
    h = 0
    if algo == "SOO":
        while cells_upto(K, h) < n:
            h += 1
        return h
    # StoSOO: the sweep can only reach the cap if every cell above it was expanded (k pulls each)
    h = 1
    while k * cells_upto(K, h - 1) <= n:
        h += 1
    return h


# ---------------------------------------------------------------------------------------------------------------
# rewards

OPEN_FAMILIES = ["neg", "const", "zero", "tied", "noisy", "large", "large_off", "unit", "drift", "altext",
                 "incr", "decr", "best_first", "best_last", "twoval", "quant5", "bern", "negbern", "nonpos3", "hugeneg", "intnormal", "intwide", "int3wide", "records", "negzero", "alt010", "huge_off"]
HUGE_FAMILIES = ["huge"]
CLOSED_FAMILIES = ["cl_hump", "cl_sine", "cl_garland", "cl_step", "cl_negdist", "cl_corner", "cl_topcorner"]


def open_rewards(fam, seed, T):
    rng = np.random.default_rng([int(seed), 7919])
    if fam == "neg":
        return -rng.random(T) - 0.1
    if fam == "const":
        return np.full(T, 0.3)
    if fam == "zero":
        return np.zeros(T)
    if fam == "tied":
        return rng.choice([0.0, 1.0, -1.0], size=T)
    if fam == "quant5":
        return rng.choice([0.0, 0.25, 0.5, 0.75, 1.0], size=T)
    if fam == "intwide":
        return np.round(rng.normal(0, 10, T))
    if fam == "int3wide":
        return rng.choice([0.0, 6.0, -4.0], size=T, p=[0.6, 0.2, 0.2])
    if fam == "intnormal":
        return np.round(rng.normal(0, 3, T))
    if fam == "hugeneg":
        return -(10.0 ** rng.uniform(19, 21, T))
    if fam == "negbern":
        return -rng.choice([0.0, 1.0], size=T, p=[0.3, 0.7])
    if fam == "nonpos3":
        return rng.choice([0.0, -0.5, -2.0], size=T, p=[0.2, 0.4, 0.4])
    if fam == "bern":
        return rng.choice([0.0, 1.0], size=T, p=[0.6, 0.4])
    if fam == "twoval":
        return rng.choice([-2.5, -0.5], size=T)
    if fam == "noisy":
        return rng.normal(0, 1, T)
    if fam == "large":
        return rng.normal(0, 1, T) * 1e6
    if fam == "large_off":
        return 1e6 + rng.normal(0, 1, T)
    if fam == "huge_off":
        # a common offset of 3e6 .. 1e9 (either sign) with unit-scale noise: |mean| / spread >= 1e6, where raw-moment
        # variances (E x^2 - (E x)^2) and naively accumulated sums lose every significant digit
        off = float(10 ** rng.uniform(6.5, 9)) * (1 if rng.random() < 0.6 else -1)
        return off + rng.normal(0, 1, T) * float(10 ** rng.uniform(-1, 0.5))
    if fam == "nearflat":
        # a nearly flat objective: values differ by less than 1e-5 relative (a comparison with np.isclose's default
        # tolerances takes them for equal), some of them by a few ulps only
        return float(rng.choice([0.7, -3.0, 1e-9, 250.0])) * (1 + 1e-7 * rng.random(T))
    if fam == "unit":
        return rng.random(T)
    if fam == "drift":
        return np.linspace(-1, 1, T) + rng.normal(0, 0.1, T)
    if fam == "altext":
        return np.where(np.arange(T) % 2 == 0, 1e3, -1e3) * rng.random(T)
    if fam == "incr":
        return np.cumsum(rng.random(T) + 1e-3) - 5.0
    if fam == "decr":
        return 5.0 - np.cumsum(rng.random(T) + 1e-3)
    if fam == "best_first":
        r = -rng.random(T) - 0.5
        r[0] = 0.25
        return r
    if fam == "best_last":
        r = -rng.random(T) - 0.5
        r[-1] = 0.25
        return r
    if fam == "alt010":
        # 0, -10, 0, -10, ...: one child of every cell is rewarded, its sibling punished by far more than any
        # confidence width - the tree bandits grow a single path ('caterpillar'), one level every other round
        return np.where(np.arange(T) % 2 == 0, 0.0, -10.0)
    if fam == "negzero":
        # all negative except a few exact zeros (+0.0 / -0.0): the best value coincides with the default reward of a
        # cell that has not been evaluated yet
        r = -rng.uniform(0.1, 1.0, T)
        z = rng.random(T) < 0.05
        r[z] = np.where(rng.random(int(z.sum())) < 0.5, 0.0, -0.0)
        return r
    if fam == "records":
        # a new strict record in about one round out of seven (so the best evaluation so far is often a recent one,
        # at every stopping time), noise below every record otherwise
        r = -rng.random(T) - 0.5
        top = 0.0
        for t in np.flatnonzero(rng.random(T) < 0.15):
            top += float(rng.uniform(0.1, 1.0))
            r[t] = top
        return r
    if fam == "roundidx":
        return np.arange(1, T + 1, dtype=float)
    if fam == "sin3":
        return 3.0 * np.sin(np.arange(1, T + 1, dtype=float))
    if fam == "huge":
        e = rng.uniform(100, 307, T)
        return rng.choice([-1.0, 1.0], size=T) * 10.0 ** e
    raise KeyError(fam)


def unit_coords(point, box):
    return [(float(x) - lo) / (hi - lo) if hi > lo else 0.5 for x, (lo, hi) in zip(point, box)]


def closed_reward_fn(fam, seed, box):
    rng = np.random.default_rng([int(seed), 104729])
    d = len(box)
    centre = rng.random(d)
    sigma = float(rng.choice([0.0, 0.05, 0.3]))
    noise = np.random.default_rng([int(seed), 1299709])

    def f(i, point):
        u = unit_coords(point, box)
        if fam == "cl_hump":
            v = 1.0 - sum((a - c) ** 2 for a, c in zip(u, centre))
        elif fam == "cl_sine":
            v = 1.0
            for a, c in zip(u, centre):
                v *= 0.5 * (1 + math.sin(13 * a + 5 * c)) * (1 - abs(a - c))
        elif fam == "cl_garland":
            x = min(max(u[0], 1e-12), 1 - 1e-12)
            v = x * (1 - x) * (4 - math.sqrt(abs(math.sin(60 * x)))) - sum((a - c) ** 2 for a, c in
                                                                             zip(u[1:], centre[1:]))
        elif fam == "cl_negdist":
            # noiseless negative distance to a dyadic target: the maximum 0 is hit exactly by a cell centre
            tgt = [(0.5, 0.25, 0.75, 0.3125)[int(c * 4) % 4] for c in centre]
            return float(-sum(abs(a - b) for a, b in zip(u, tgt)))
        elif fam == "cl_corner":
            # steep and monotone towards a corner of the box: the best cell of every depth is the first / the last of
            # its layer (the places an off-by-one in a scan, a sampler or an index formula loses)
            scale = 10.0 ** (3 * centre[0])
            v = scale * sum((a if c > 0.5 else 1 - a) for a, c in zip(u, centre[::-1])) / d
        elif fam == "cl_topcorner":
            # as cl_corner, always towards the upper corner: the best cell of a layer is its last one
            v = 1000.0 * sum(u) / d
        elif fam == "cl_step":
            v = float(sum(1.0 for a, c in zip(u, centre) if a > c)) / d - 0.5
        else:
            raise KeyError(fam)
        if sigma:
            v += sigma * float(noise.normal())
        return float(v)

    return f


def reward_fn(case):
    """reward(i, point), i = 0-based round index; fully determined by the case descriptor"""
    R = case["reward"]
    fam = R["family"]
    if fam.startswith("cl_"):
        return closed_reward_fn(fam, R["seed"], case["box"])
    seq = open_rewards(fam, R["seed"], max(case["T"], 1))
    return lambda i, point: float(seq[i])


# ---------------------------------------------------------------------------------------------------------------
# generators for boxes and parameters

BOX_KINDS = ["unit", "shifted", "negative", "tiny", "huge", "mixed", "dyadic", "ulps", "ints"]


def gen_box(rng, dim, kind=None):
    kind = kind or str(rng.choice(BOX_KINDS))
    box = []
    for j in range(dim):
        if kind == "unit":
            lo, w = 0.0, 1.0
        elif kind == "shifted":
            lo, w = float(rng.choice([10.0, 0.25, 1e3, 3.7])), float(rng.choice([1.0, 2.0, 0.5, 3.7]))
        elif kind == "negative":
            lo, w = -float(rng.choice([1.0, 5.0, 1e3, 0.3])), float(rng.choice([0.25, 1.0, 2.0]))
        elif kind == "tiny":
            lo, w = float(rng.choice([0.0, 1.0, -2.0])), 1e-6 * float(rng.uniform(0.5, 2))
        elif kind == "huge":
            lo, w = float(rng.choice([0.0, -1e6, 1e6])), 1e6 * float(rng.uniform(0.5, 2))
        elif kind == "mixed":
            lo, w = float(rng.choice([0.0, -1.0, 10.0, -1e3, 1e6, -1e-3])), float(10 ** rng.uniform(-6, 6))
        elif kind == "ulps":
            # a box only a few floats wide (legal: lo < hi); cells degenerate to zero width after a few splits
            lo = float(rng.choice([1.0, -3.7, 1e6, 0.1, -1e-3]))
            hi = lo
            for _ in range(int(rng.integers(1, 6))):
                hi = float(np.nextafter(hi, np.inf))
            box.append([lo, hi])
            continue
        elif kind == "ints":
            # integer end points as in the repository's own tests and docs: domain = [[0, 1]], [[-5, 5]], [[10, 50]]
            lo = int(rng.choice([0, -1, -5, 10, 1, -100]))
            box.append([lo, lo + int(rng.choice([1, 2, 5, 10, 40]))])
            continue
        elif kind == "dyadic":
            lo, w = float(rng.choice([0.0, -1.0, 0.5, -4.0, 8.0])), float(rng.choice([1.0, 2.0, 0.5, 4.0]))
        else:
            raise KeyError(kind)
        hi = lo + w
        if not hi > lo:
            hi = float(np.nextafter(lo, np.inf))
        box.append([lo, hi])
    return box, kind


def gen_params(rng, algo, n, K, narrow=False):
    """parameters drawn log-uniformly from the documented ranges"""
    nu = float(10 ** rng.uniform(-2, 2)) if not narrow else float(10 ** rng.uniform(-1, 1))
    rho = float(rng.uniform(0.02, 0.98)) if not narrow else float(rng.uniform(0.2, 0.9))
    corner = False
    if algo in ("T_HOO", "HCT", "VHCT", "Zooming") and not narrow and rng.random() < 0.1:
        # far corners of the documented ranges (nu > 0, 0 < rho < 1, 0 < delta < 1): tiny or huge smoothness constants,
        # confidence levels close to 1 (where c1*delta/t+ exceeds 1 for the first rounds and must be clamped)
        corner = True
        nu = float(10 ** rng.uniform(-9, -2)) if rng.random() < 0.6 else float(10 ** rng.uniform(2, 6))
    if algo == "T_HOO":
        return {"nu": nu, "rho": rho}
    if algo in ("HCT", "VHCT"):
        P = {"nu": nu, "rho": rho, "c": float(10 ** rng.uniform(-3, 0.5)), "delta": float(10 ** rng.uniform(-6, -0.01))}
        if corner and rng.random() < 0.7:
            P["delta"] = float(rng.uniform(0.5, 0.999))
        if algo == "VHCT":
            P["bound"] = float(10 ** rng.uniform(-2, 1.5))
        return P
    if family(algo) in ("POO", "GPO"):
        # the documented range is 0 < rhomax < 1; 15% of the draws sit close to 1, where POO keeps doubling its
        # number of learners (GPO has no budget per learner there: known finding of C01)
        rm = float(rng.uniform(0.02, 0.98)) if rng.random() < 0.85 else float(rng.uniform(0.98, 0.998))
        if not narrow and rng.random() < 0.08:
            # far corners of numax > 0 and of 0 < rhomax < 1
            nu = float(10 ** rng.uniform(-8, -2)) if rng.random() < 0.5 else float(10 ** rng.uniform(2, 6))
            if rng.random() < 0.3:
                rm = float(10 ** rng.uniform(-6, -2))
        return {"nu": nu, "rhomax": rm}
    if algo == "DOO":
        return {}
    if algo == "DOO_delta":
        return {"delta_fn": str(rng.choice(list(USER_DELTAS)))}
    if algo == "SOO":
        return {"h_max": smallest_cap("SOO", K, n)}
    if algo == "StoSOO":
        k = [None, 1, 2, 3, 5][int(rng.integers(5))]
        dl = [None, 0.01, 0.5][int(rng.integers(3))]
        if not narrow and rng.random() < 0.08:
            # far corners: confidence levels close to 0 or 1, evaluation counts of the order of the budget
            dl = float(10 ** rng.uniform(-12, -4)) if rng.random() < 0.5 else float(rng.uniform(0.9, 0.9999))
            if rng.random() < 0.4:
                k = int(rng.choice([max(2, n // 10), n, 2 * n]))
        kk = stosoo_k(n, k)
        return {"k": k, "delta": dl, "h_max": smallest_cap("StoSOO", K, n, kk)}
    if algo in ("SequOOL", "StroquOOL"):
        return {}
    if algo == "VROOM":
        hm = int(rng.choice([1, 3, math.floor(math.log2(n)), 12, 25]))
        b, fm = float(10 ** rng.uniform(-2, 1)), float(10 ** rng.uniform(-1, 2))
        if not narrow and rng.random() < 0.08:
            b = float(10 ** rng.uniform(-7, -2)) if rng.random() < 0.5 else float(10 ** rng.uniform(1, 5))
            fm = float(10 ** rng.uniform(-4, 4))
        return {"h_max": hm, "b": b, "f_max": fm}
    if algo == "Zooming":
        return {"nu": nu, "rho": rho}
    raise KeyError(algo)


def case_sig(case):
    """signature used to count distinct cases (parameters rounded to 3 significant digits)"""
    def r(v):
        if isinstance(v, float):
            return float("%.3g" % v)
        return v
    P = {k: r(v) for k, v in sorted(case.get("params", {}).items())}
    return json.dumps([case["algo"], case["part"], len(case["box"]), case.get("box_kind"), case["n"], case["T"],
                       case["reward"]["family"], P, case.get("inject"), case.get("np_seed"), case.get("alias_box")],
                      sort_keys=True)


# ---------------------------------------------------------------------------------------------------------------
# logical step budget (sys.monitoring): number of PyXAB function entries per API call


class StepBudgetExceeded(BaseException):
    pass


class StepBudget:
    """counts PY_START events of code objects that live under /repo/PyXAB; raises when a single API call exceeds
    `limit` entries.  Machine load cannot change the verdict."""

    def __init__(self, limit=10 ** 7, lines=False):
        self.limit = limit
        self.count = 0
        self.max_seen = 0
        self.total = 0
        self.lines = lines
        self.on_ = False
        self.mon = getattr(sys, "monitoring", None)

    def _cb(self, code, off):
        if not code.co_filename.startswith(PKG):
            return self.mon.DISABLE
        self.count += 1
        if self.count > self.limit:
            raise StepBudgetExceeded("more than %d steps in one call" % self.limit)

    def on(self):
        if self.mon is None or self.on_:
            return
        m = self.mon
        self.tid = m.PROFILER_ID
        m.use_tool_id(self.tid, "pyxabmon-steps")
        ev = m.events.LINE if self.lines else m.events.PY_START
        m.register_callback(self.tid, ev, self._cb)
        m.set_events(self.tid, ev)
        self.on_ = True

    def off(self):
        if not self.on_:
            return
        self.mon.set_events(self.tid, 0)
        self.mon.free_tool_id(self.tid)
        self.on_ = False

    def reset(self):
        self.count = 0

    def note(self):
        self.total += self.count
        if self.count > self.max_seen:
            self.max_seen = self.count


def inbox_problem(p, box):
    """None if p is a d-vector of finite reals inside the closed box, else a short description"""
    if not isinstance(p, (list, tuple)):
        return "not a list/tuple: %r" % (type(p).__name__,)
    if len(p) != len(box):
        return "length %d != dimension %d" % (len(p), len(box))
    for j, (x, (lo, hi)) in enumerate(zip(p, box)):
        if isinstance(x, (bool, np.bool_)) or not isinstance(x, (int, float, np.floating, np.integer)):
            return "coordinate %d is %r" % (j, type(x).__name__)
        if not math.isfinite(x):
            return "coordinate %d not finite: %r" % (j, x)
        if not (lo <= x <= hi):
            return "coordinate %d = %r outside [%r, %r]" % (j, float(x), lo, hi)
    return None


def all_nodes(part):
    return [x for layer in part.get_node_list() for x in layer]


def reachable(part):
    out, stack, seen = [], [part.get_root()], set()
    while stack:
        x = stack.pop()
        if id(x) in seen:
            continue
        seen.add(id(x))
        out.append(x)
        ch = x.get_children()
        if ch:
            stack.extend(ch)
    return out


def path_to_root(node, limit=100000):
    p = []
    while node is not None and len(p) < limit:
        p.append(node)
        node = node.get_parent()
    return p[::-1]
