"""VROOM monitor (C13, and the VROOM part of C04): the single np.random.choice call of every pull is intercepted
(arguments and outcome recorded, the real generator still draws), ranks are read through get_rank(), and the credited
set is observed as 'the cells whose reward list grew in this round'."""
import math

import numpy as np

from . import common as C
from .driver import Monitor

close = C.close


class VroomMon(Monitor):
    def __init__(self):
        super().__init__()
        self.led = {}
        self.calls = []
        self.orig = None
        self.before = None
        self.exp = None
        self.drawn = None

    def start(self, ctx):
        c = ctx.case
        self.n = c["n"]
        P = c["params"]
        self.sd = math.floor(math.log2(self.n))
        self.delta = 4 * P["b"] / (P["f_max"] * math.sqrt(self.n))
        self.eff = min(P["h_max"], self.n)
        self.Cn = math.fsum(1.0 / (h * l) for h in range(1, self.sd + 1) for l in range(1, 2 ** h + 1))
        self.part = ctx.algo.partition
        self.lcb_w = math.log(4 * self.n ** 3 / self.delta)
        self.buckets = {}
        for h in range(1, self.sd + 1):
            self.buckets["h%02d" % h] = math.fsum(1.0 / (h * l * self.Cn) for l in range(1, 2 ** h + 1))
            for l in range(1, 2 ** h + 1):
                k = "r%02d" % l.bit_length()
                self.buckets[k] = self.buckets.get(k, 0.0) + 1.0 / (h * l * self.Cn)

    def _install(self):
        if self.orig is not None:
            return
        self.orig = np.random.choice
        orig, calls = self.orig, self.calls

        def choice(a, size=None, replace=True, p=None):
            s = orig(a, size=size, replace=replace, p=p)
            calls.append((list(a) if not isinstance(a, int) else a, None if p is None else [float(x) for x in p], s))
            return s

        np.random.choice = choice

    def _remove(self):
        if self.orig is not None:
            np.random.choice = self.orig
            self.orig = None

    def before_pull(self, ctx, t):
        self.calls.clear()
        self.inj0 = getattr(getattr(ctx, "inj", None), "n_inj", 0)
        self._install()

    def lcb(self, x):
        r = self.led.get(id(x))
        if not r:
            return -math.inf
        if self.lcb_w < 0:
            # delta = 4b/(f_max sqrt(n)) > 4 n^3 (a huge b with a tiny f_max): the published width is the square
            # root of a negative number; the code computes nan and every rank order is then as good as any other
            return math.nan
        return math.fsum(r) / len(r) - math.sqrt(self.lcb_w / (2 * len(r)))

    def on_pull(self, ctx, t, pt):
        self._remove()
        nl = self.part.get_node_list()
        self.drawn = None
        self.exp = None
        self.pt = pt
        self.obs["vroom_pulls_checked"] += 1
        self.before = {id(x): len(x.reward) for x in C.reachable(self.part)}
        idx = [(h, l) for h in range(1, self.sd + 1) for l in range(len(nl[h]) if h < len(nl) else 0)]
        exp = []
        rk = {}
        for h in range(1, self.sd + 1):
            layer = nl[h] if h < len(nl) else []
            ranks = [x.get_rank()[-1] if x.get_rank() else None for x in layer]
            if sorted(r for r in ranks if r is not None) != list(range(1, 2 ** h + 1)) or len(layer) != 2 ** h:
                self.v("C13:ranks_are_not_a_permutation", depth=h, cells=len(layer))
                return
            order = sorted(range(len(ranks)), key=lambda i: ranks[i])
            vals = [self.lcb(layer[i]) for i in order]
            self.obs["rank_orders_checked"] += 1
            for a_, b_ in zip(vals, vals[1:]):
                if a_ < b_ and not close(a_, b_, 1e-9, 1e-12) and not (math.isnan(a_) or math.isnan(b_)):
                    self.v("C13:rank_not_non_increasing_in_lower_confidence_value", depth=h, better=b_, worse=a_)
                    return
            exp += [1.0 / (h * r * self.Cn) for r in ranks]
            for x, r in zip(layer, ranks):
                rk[id(x)] = (h, r)
        # a pull during which the harness replaced an outcome of np.random.uniform by an end point is not a sample of
        # the algorithm's distribution any more (the sampler may be built on uniform()); the decision to inject is
        # independent of the real draw, so leaving those pulls out does not bias the pooled frequencies
        self.injected = getattr(getattr(ctx, "inj", None), "n_inj", 0) != self.inj0
        # position buckets: the first / last cell of a ranked layer, the first / last cell of the whole support
        self.posp = {"pos_first_of_a_layer": 0.0, "pos_last_of_a_layer": 0.0}
        self.posid = {}
        for h in range(1, self.sd + 1):
            for key, x in (("pos_first_of_a_layer", nl[h][0]), ("pos_last_of_a_layer", nl[h][-1])):
                self.posp[key] += 1.0 / (h * rk[id(x)][1] * self.Cn)
                self.posid.setdefault(id(x), []).append(key)
        self.posp["pos_first_of_the_support"] = 1.0 / (1 * rk[id(nl[1][0])][1] * self.Cn)
        self.posid.setdefault(id(nl[1][0]), []).append("pos_first_of_the_support")
        self.posp["pos_last_of_the_support"] = 1.0 / (self.sd * rk[id(nl[self.sd][-1])][1] * self.Cn)
        self.posid.setdefault(id(nl[self.sd][-1]), []).append("pos_last_of_the_support")
        self.exp = rk  # cell -> (depth, rank) at the moment of the draw: what the pooled frequency monitor needs
        if len(self.calls) != 1:
            # the draw was not made through np.random.choice (or several were): its arguments cannot be observed.
            # The drawn cell is then taken from the credit (the shallowest cell credited in this round) and only the
            # pooled frequency monitor judges the distribution.
            self.obs["pulls_without_an_observable_categorical_draw"] += 1
            return
        aa, p, s = self.calls[0]
        if aa != list(range(len(idx))) and aa != len(idx):
            self.v("C13:support_is_not_the_cells_of_the_ranking_depths", support=len(aa) if isinstance(aa, list) else aa,
                   cells=len(idx))
            return
        if p is None or len(p) != len(exp) or any(abs(x - y) > 1e-12 for x, y in zip(p, exp)):
            bad = None if p is None or len(p) != len(exp) else max(range(len(p)), key=lambda i: abs(p[i] - exp[i]))
            self.v("C13:probability_is_not_one_over_h_r_C", at=bad, p=None if bad is None else p[bad],
                   want=None if bad is None else exp[bad])
            return
        self.obs["probabilities_compared"] += len(p)
        if abs(math.fsum(p) - 1) > 1e-9:
            self.v("C13:probabilities_do_not_sum_to_one", total=math.fsum(p))
        h, l = idx[int(s)]
        self.drawn = nl[h][l]
        why = C.inbox_problem(pt, self.drawn.get_domain())
        if why:
            self.v("C13:point_outside_the_drawn_cell", why=why, depth=h)

    def pool(self, cell):
        """pooled frequency monitor: the drawn cell's (depth, rank) is counted in its depth bucket and in its rank
        bucket (1, 2, 3-4, 5-8, ...); each bucket's probability under the published distribution is a constant of n
        (ranks are a permutation), so hits - sum p is a martingale with variance sum p(1-p)"""
        hr = self.exp.get(id(cell)) if self.exp else None
        if hr is None:
            return False
        if self.injected:
            self.obs["draws_left_out_of_the_pool_because_an_rng_outcome_was_injected"] += 1
            return False
        h, r = hr
        self.obs["draws_pooled_for_the_frequency_test"] += 1
        self.obs["~hit|h%02d" % h] += 1
        self.obs["~hit|r%02d" % int(r).bit_length()] += 1
        for key, pb in self.buckets.items():
            self.obs["~p|" + key] += pb
            self.obs["~v|" + key] += pb * (1 - pb)
        for key in self.posid.get(id(cell), []):
            self.obs["~hit|" + key] += 1
        for key, pb in self.posp.items():
            self.obs["~p|" + key] += pb
            self.obs["~v|" + key] += pb * (1 - pb)
        return True

    def on_reward(self, ctx, t, r):
        if self.before is None:
            return
        nodes = C.reachable(self.part)
        before, self.before = self.before, None
        grew = [x for x in nodes if len(x.reward) != before.get(id(x), 0)]
        grew.sort(key=lambda x: x.get_depth())
        if self.drawn is None:
            if self.exp is None or not grew or len(self.calls) == 1:
                return
            # no observable categorical draw: the shallowest credited cell is the drawn one
            self.drawn = grew[0]
            if not 1 <= self.drawn.get_depth() <= self.sd:
                self.v("C13:support_is_not_the_cells_of_the_ranking_depths", drawn_depth=self.drawn.get_depth(),
                       ranking_depths=self.sd)
                self.drawn = None
                return
            why = C.inbox_problem(self.pt, self.drawn.get_domain())
            if why:
                self.v("C13:point_outside_the_drawn_cell", why=why, depth=self.drawn.get_depth())
        self.pool(self.drawn)
        self.obs["vroom_chains_checked"] += 1
        # credited set = a parent->child chain that starts at the drawn cell and goes down to the depth cap
        ok = bool(grew) and grew[0] is self.drawn
        for a_, b_ in zip(grew, grew[1:]):
            if b_.get_parent() is not a_ or not any(b_ is k for k in (a_.get_children() or [])):
                ok = False
        if not ok:
            self.v("C13:credited_cells_are_not_a_chain_from_the_drawn_cell", drawn_depth=self.drawn.get_depth(),
                   credited_depths=[x.get_depth() for x in grew])
            self.v("C04:credited_cells_are_not_a_chain_from_the_drawn_cell", drawn_depth=self.drawn.get_depth(),
                   credited_depths=[x.get_depth() for x in grew])
        else:
            want = max(0, self.eff - self.drawn.get_depth()) + 1
            if len(grew) != want:
                self.v("C13:chain_does_not_reach_the_depth_cap", length=len(grew), want=want,
                       drawn_depth=self.drawn.get_depth(), cap=self.eff)
            why = C.inbox_problem(self.pt, grew[-1].get_domain())
            if why:
                self.v("C13:point_outside_the_deepest_cell_of_the_chain", why=why)
                # C04: "the sampled cell and the descendants it drew the point from" - a credited descendant that
                # does not contain the point is not one of those
                self.v("C04:credited_descendant_does_not_contain_the_point", why=why, depth=grew[-1].get_depth())
            ul = getattr(ctx.algo, "update_list", None)
            if ul is not None and [id(x) for x in ul] != [id(x) for x in grew]:
                self.v("C04:credited_cells_differ_from_the_sampled_chain")
        for x in grew:
            if len(x.reward) != before.get(id(x), 0) + 1 or x.reward[-1] != r:
                self.v("C04:cell_credited_more_than_once_or_with_another_value", depth=x.get_depth())
        for x in (grew if ok else []):
            self.led.setdefault(id(x), []).append(r)
        if not ok:
            self.drawn = None
            return
        # the credited chain is compared every round, the whole tree every 16th round and at the end
        full = ctx.round % 16 == 0 or ctx.round >= ctx.case["T"]
        for x in (nodes if full else grew):
            self.obs["cells_compared"] += 1
            if list(x.reward) != self.led.get(id(x), []):
                self.v("C04:cell_rewards_differ_from_history", depth=x.get_depth(), have=len(x.reward),
                       want=len(self.led.get(id(x), [])))
                break

    def finish(self, ctx):
        self._remove()
        self.obs["max_tree_depth"] = max(self.obs.get("max_tree_depth", 0), self.part.get_depth())
