"""C12 - SequOOL opens cells depth by depth within its harmonic budget"""
from .. import common as C
from .. import gen
from ..driver import drive, result_of
from ..searchmon import SequOOLMon

PROP = "C12"
FAMS = ["int3wide", "negbern", "nonpos3", "cl_negdist", "bern", "quant5", "neg", "const", "zero", "tied", "twoval", "noisy", "unit", "large", "incr", "decr", "cl_hump", "cl_garland",
        "cl_step", "best_first", "best_last", "incr", "drift", "best_last", "noisy", "quant5"]
RULE = ("SequOOL with budgets n = 10..2000 on all partitions, d=1..3, T = n (plus get_last_point queries in the last "
        "rounds); every make_children is an 'open' event judged against the ledger at that moment (first open is the "
        "root, depths non-decreasing in steps of one, at most floor(h_max/h) opens at depth h, none beyond h_max, best "
        "unopened cell of the depth, all cells of the depth evaluated), every hand-out must be the next child of the "
        "opened cell; after exhaustion pulls return the root's centre and the recommendation object stays the same; "
        "non-trivial = >= 5 opens judged")
ASSUMPTIONS = [
    "h_max = floor(n/H_n) with H_n summed in floating point; budgets where n/H_n is within 1e-9 of an integer are not judged on the budget clauses",
    "exhaustion within the budget mostly occurs for binary trees; for K >= 3 that part of the oracle is exercised less (reported in the evidence)",
]
FLOOR = {"opens_judged": {"quick": 20000, "thorough": 64000},
         "handouts_checked": {"quick": 75000, "thorough": 240000},
         "runs_exhausted_within_budget": {"quick": 75, "thorough": 240}}
WALL = {"quick": 1200, "thorough": 4 * 3600}


def gen_cases(rng, tier, count=None):
    count = count or (1200 if tier == "quick" else 9600)
    out = []
    ns = [10, 17, 30, 64, 100, 150, 257, 400] + ([800, 1500, 2000] if tier == "thorough" else [600])
    for i in range(count):
        n = int(rng.choice(ns)) if i % 2 else int(rng.integers(10, 400 if tier == "quick" else 1200))
        if i % 10 == 3:
            n = int(rng.integers(10, 41))  # tiny budgets: h_max = floor(n/H_n) is smaller than the arity K
        c = gen.algo_case(rng, "SequOOL", tier, fams=FAMS, early_stop=False, n=n)
        if i % 10 == 3:
            # the property does not stop at the budget: "once the schedule is exhausted, further pulls return the
            # domain centre" - keep pulling until the schedule is exhausted even if that is beyond n
            c["T"] = 6 * n
        T = c["T"]
        if rng.random() < 0.6:
            c["queries"] = list(range(T))  # after every round: the recommendation at exhaustion is known exactly
        else:
            c["queries"] = sorted({T - 1 - j for j in range(int(rng.integers(0, 4))) if T - 1 - j >= 0})
        out.append(c)
    return out


def run_case(case):
    m = SequOOLMon()
    ctx = drive(case, [m], own=PROP)
    res = result_of(ctx, [m], prefix=PROP, nontrivial=lambda ctx, res: res["obs"].get("opens_judged", 0) >= 5)
    cr = ctx.crash
    if cr and case["T"] > case["n"] and cr.get("round", 0) >= case["n"] and not cr.get("watchdog") and not cr.get("harness"):
        # the runs that are driven beyond the declared budget in order to see the schedule through to its exhaustion
        # (C01 stops at T = n, so nobody else looks there): an exception or a hang before the schedule is exhausted
        # means the schedule the property describes cannot be carried out
        res["viol"].append({"pred": "C12:raises_or_hangs_before_the_schedule_is_exhausted", "round": cr.get("round"),
                            "detail": {"exc": cr.get("exc"), "site": cr.get("site"), "msg": cr.get("msg"),
                                       "n": case["n"], "part": case["part"]}})
    return res
