"""C13 - VROOM samples cells from the rank-based distribution and points inside the cell"""
import math

from .. import common as C
from .. import gen
from ..driver import drive, result_of
from ..vroommon import VroomMon

PROP = "C13"
FAMS = ["neg", "const", "zero", "tied", "noisy", "unit", "large", "drift", "cl_hump", "cl_garland", "cl_step", "cl_corner", "cl_corner", "cl_corner"]
RULE = ("VROOM on the binary-child partitions (Bin, RBin, K2, RK2), d=1..3, n in {100..257} (thorough ..1000), depth "
        "cap below / at / above the ranking depth floor(log2 n) and above n, b and f_max log-uniform, injected "
        "end-point outcomes of np.random.uniform; per pull: exactly one categorical draw whose support, probability "
        "vector (element-wise 1e-12), normalisation and rank permutation/monotonicity are checked against the ledger; "
        "per round: credited cells = chain from the drawn cell to the cap, point inside drawn and deepest cell; "
        "non-trivial = >= 50 pulls checked")
ASSUMPTIONS = [
    "when the draw goes through np.random.choice its arguments are compared element-wise; in addition (and as the only judge of the distribution when the draw is made some other way) the drawn cells of all pulls are pooled per depth and per rank bucket and compared with the published probabilities at 6.5 sigma",
    "lower confidence value = mean - sqrt(ln(4 n^3/delta)/(2T)), -inf for unvisited cells; ties in rank order accepted",
    "partitions with other than 2 children per cell are a known finding of C01 and not part of this property",
]
FLOOR = {"vroom_pulls_checked": {"quick": 6000, "thorough": 48000},
         "rank_orders_checked": {"quick": 40000, "thorough": 320000},
         "vroom_chains_checked": {"quick": 6000, "thorough": 48000},
         "draws_pooled_for_the_frequency_test": {"quick": 6000, "thorough": 48000}}
ZMAX = 6.5  # two-sided normal tail 8e-11 per bucket; about 20 buckets


def post(pooled, obs, tier):
    """pooled frequency monitor over all pulls of all cases: per depth bucket and per rank bucket, the number of
    draws that fell into the bucket against the sum of the bucket's probabilities under 1/(h r C)"""
    out = {"violations": [], "inconclusive": [], "coverage": {}}
    table = {}
    for k, hits_p in pooled.items():
        if not k.startswith("~p|"):
            continue
        b = k[3:]
        ssum, var, hits = hits_p, pooled.get("~v|" + b, 0.0), pooled.get("~hit|" + b, 0)
        if var < 25:
            continue  # (normal approximation not trusted; bucket not judged)
        z = (hits - ssum) / math.sqrt(var)
        table[b] = {"draws_in_bucket": int(hits), "expected": round(ssum, 2), "z": round(z, 2)}
        if abs(z) > ZMAX:
            out["violations"].append({"pred": "C13:drawn_cells_do_not_follow_the_rank_distribution", "algo": "VROOM",
                                      "round": None, "detail": dict(table[b], bucket=b,
                                                                    meaning="hNN = depth NN, rNN = ranks 2^(NN-1)..2^NN-1")})
    out["coverage"]["pooled_frequency_test"] = {"buckets_judged": len(table), "z_limit": ZMAX, "buckets": table}
    if not table and obs.get("draws_pooled_for_the_frequency_test", 0) > 0:
        out["inconclusive"].append("pooled frequency test judged no bucket")
    return out


WALL = {"quick": 1200, "thorough": 4 * 3600}


def gen_cases(rng, tier, count=None):
    count = count or (110 if tier == "quick" else 1600)
    out = []
    for i in range(count):
        c = gen.algo_case(rng, "VROOM", tier, fams=FAMS, early_stop=False, inject_p=0.3,
                          n_choices=[100, 128, 150, 200, 257] if tier == "quick" else [100, 128, 257, 500, 1000])
        n = c["n"]
        sd = math.floor(math.log2(n))
        c["params"]["h_max"] = int(rng.choice([1, 3, sd - 1, sd, sd + 1, 12, 25, n + 5 if n <= 128 else 40]))
        out.append(gen.add_midqueries(rng, c, 0.3))
    for i in range(60 if tier == "quick" else 600):
        # a steep objective whose optimum is the upper corner: the last cell of the deepest ranked layer (the last
        # entry of the probability vector) becomes the best-ranked one and carries a few per cent of the mass - the
        # bucket 'pos_last_of_the_support' of the pooled frequency monitor gets enough draws to be judged
        c = gen.algo_case(rng, "VROOM", tier, fams=["cl_topcorner"], early_stop=False, inject_p=0.0,
                          n_choices=[100, 128, 150], part=str(rng.choice(["Bin", "K2"])), dim=1)
        c["params"]["h_max"] = int(rng.choice([6, 7, 12]))
        out.append(c)
    return out


def run_case(case):
    m = VroomMon()
    try:
        ctx = drive(case, [m], own=PROP)
    finally:
        m._remove()
    return result_of(ctx, [m], prefix=PROP, nontrivial=lambda ctx, res: res["obs"].get("vroom_pulls_checked", 0) >= 50)
