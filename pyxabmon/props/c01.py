"""C01 - the ask/tell loop is total and every proposed point lies inside the user's box.

Events: return value / exception / logical step count of every pull, receive_reward and the final get_last_point.
Oracle: no exception; a list/tuple of d finite reals inside the *user's* box; <= STEP_LIMIT PyXAB function entries
per call (a hang is decided on logical steps, never on wall-clock time)."""
import math
import copy

import numpy as np

from .. import common as C
from .. import gen
from ..driver import Monitor, crash_info, drive, result_of

PROP = "C01"
STEP_LIMIT = 10 ** 7
RULE = ("cases = algorithm x partition x dimension x box x budget x stopping time T<=n x reward family x NumPy seed "
        "(+ injected end-point outcomes of np.random.uniform), all drawn from VERIF_SEED; distinct = distinct case "
        "signature (parameters to 3 digits); non-trivial = at least 10 completed rounds with every pull checked")
ASSUMPTIONS = [
    "boxes have |lo+hi| <= 1e300 per dimension (the midpoint (lo+hi)/2 overflows beyond 1.8e308)",
    "SOO/StoSOO depth caps are the smallest cap whose tree can hold the budget (the property quantifies over caps "
    "large enough to hold the budget)",
    "VROOM on partitions with other than 2 children per cell is generated only when K^floor(log2 n) <= 20000 cells",
    "a hang is a call exceeding 1e7 PyXAB function entries (largest legitimate call observed is reported)",
    "rewards are floats of the listed families, incl. magnitudes up to 1e307; not every finite float",
]
FLOOR = {"pulls_checked": {"quick": 20000, "thorough": 160000},
         "last_checked": {"quick": 250, "thorough": 2000},
         "intermediate_stops_probed": {"quick": 10000, "thorough": 80000}}
WALL = {"quick": 1500, "thorough": 5 * 3600}


class InBox(Monitor):
    """also probes intermediate stopping times: after a round, a deep copy of the algorithm object is asked for its
    recommendation (the run itself is not disturbed; NumPy's global state is saved and restored around the probe), so
    `get_last_point after the loop` is exercised for many T <= n per run, not just the final one"""

    def start(self, ctx):
        self.prng = np.random.default_rng([ctx.case.get("np_seed", 0), 99])
        self.pstop = ctx.case.get("probe_stops", 0.0)
        self.seen = set()

    def on_reward(self, ctx, t, r):
        if not self.pstop or self.prng.random() >= self.pstop:
            return
        state = np.random.get_state()
        try:
            clone = copy.deepcopy(ctx.algo)
        except RecursionError:
            self.obs["stop_probes_skipped_deep_tree"] += 1
            return
        finally:
            np.random.set_state(state)
        try:
            q = clone.get_last_point()
        except C.StepBudgetExceeded:
            raise
        except Exception as e:
            ci = crash_info(e, "last", ctx.round)
            key = (ci["exc"], ci["site"])
            if key not in self.seen:  # one report per mechanism and run; the run itself continues
                self.seen.add(key)
                self.v("raises", exc=ci["exc"], site=ci["site"], phase="last", msg=ci["msg"], chain=ci["chain"],
                       stop_T=ctx.round)
            self.obs["intermediate_stops_raising"] += 1
            return
        finally:
            np.random.set_state(state)
        self.obs["intermediate_stops_probed"] += 1
        why = C.inbox_problem(q, ctx.box)
        if why:
            self.v("last_not_in_box", why=why, point=repr(q)[:120], phase="last", stop_T=ctx.round)

    def on_pull(self, ctx, t, p):
        self.obs["pulls_checked"] += 1
        why = C.inbox_problem(p, ctx.box)
        if why:
            self.v("pull_not_in_box", why=why, point=repr(p)[:120], phase="pull")

    def on_query(self, ctx, p):
        self.on_last(ctx, p)

    def on_last(self, ctx, p):
        self.obs["last_checked"] += 1
        why = C.inbox_problem(p, ctx.box)
        if why:
            self.v("last_not_in_box", why=why, point=repr(p)[:120], phase="last")


def gen_cases(rng, tier, count=None):
    count = count or (800 if tier == "quick" else 16000)
    fams = C.OPEN_FAMILIES + C.CLOSED_FAMILIES + C.HUGE_FAMILIES
    cases = []
    for i in range(count):
        algo = C.ALGOS[i % len(C.ALGOS)]
        part = None
        dim = int(rng.integers(1, 4))
        if algo == "VROOM" and rng.random() < 0.12:
            # VROOM beyond binary children: small trees only (constructor builds K^floor(log2 n) cells)
            part = str(rng.choice([p for p in C.PART_NAMES if C.arity(p, dim) != 2]))
            K = C.arity(part, dim)
            n = 100 if K ** 6 <= 20000 else None
            if n is None:
                part = None
            cases.append(gen.algo_case(rng, algo, tier, part=part, dim=dim, n=n or None, fams=fams, inject_p=0.3))
            continue
        cases.append(gen.algo_case(rng, algo, tier, part=part, dim=dim, fams=fams, inject_p=0.3))
    cheap = ["SOO", "DOO", "DOO_delta", "SequOOL", "StroquOOL", "StoSOO", "Zooming", "HCT", "VHCT", "PCT", "VPCT",
             "POO_HCT", "GPO_HCT"]
    for i in range(8 if tier == "quick" else 200):
        # long horizons (budgets beyond the usual grid, counters crossing 2^11 .. 2^13) for the cheap algorithms
        n = int(rng.integers(2060, 2300)) if tier == "quick" else int(rng.choice([2100, 4200, 8300]))
        c = gen.algo_case(rng, cheap[i % len(cheap)], tier, n=n, T=n, fams=fams, dim=int(rng.integers(1, 3)),
                          narrow=n > 4000)
        if n > 4000 and "c" in c["params"]:
            # (a tiny exploration constant makes HCT split at every pull: 8300 levels, minutes per run)
            c["params"]["c"] = max(c["params"]["c"], 0.05)
        c["_cost"] = 20.0 * n / 2100
        cases.append(c)
    for i in range(28 if tier == "quick" else 400):
        # large declared budgets for the algorithms whose schedule is a function of the budget (StroquOOL's p_max and
        # h_max, SequOOL's h_max, StoSOO's k and cap): n up to 40 000, driven for at most 2 500 rounds (T <= n), with
        # order-sensitive reward histories (which cells look best early on decides who is a candidate later)
        a = ["StroquOOL", "StroquOOL", "SequOOL", "StoSOO"][i % 4]
        n = int(10 ** rng.uniform(math.log10(2950), math.log10(40000)))
        c = gen.algo_case(rng, a, tier, n=n, T=min(n, int(rng.integers(600, 2500))),
                          fams=["decr", "drift", "incr", "best_first", "records", "noisy", "neg", "cl_hump"],
                          dim=int(rng.integers(1, 3)))
        c["_cost"] = 6.0
        cases.append(c)
    for i in range(30 if tier == "quick" else 600):
        # POO close to rhomax = 1 keeps doubling its number of learners: small budgets meet large N there
        a = ["POO_T_HOO", "POO_HCT", "POO_VHCT"][i % 3]
        c = gen.algo_case(rng, a, tier, n=int(rng.integers(100, 600)), fams=fams, dim=int(rng.integers(1, 3)))
        c["params"]["rhomax"] = float(rng.uniform(0.98, 0.999))
        cases.append(c)
    for i in range(9 if tier == "quick" else 90):
        # very deep single paths: rho close to 1 (T-HOO's depth bound in the hundreds), tiny HCT/VHCT thresholds, and a
        # reward history that keeps rewarding one child and punishing its sibling
        a = ["T_HOO", "HCT", "VHCT"][i % 3]
        n = int(rng.integers(1100, 1500))
        c = gen.algo_case(rng, a, tier, n=n, T=n, fams=["alt010", "alt010", "altext"], dim=1,
                          part=str(rng.choice(["Bin", "K2", "RBin", "K3"])))
        c["params"]["rho"] = float(rng.uniform(0.994, 0.9995))
        c["params"]["nu"] = float(10 ** rng.uniform(0, 1))
        if "c" in c["params"]:
            c["params"]["c"] = float(10 ** rng.uniform(-3, -2))
            c["params"]["delta"] = 0.01
        c["_cost"] = 25.0
        cases.append(c)
    light = ("SOO", "DOO", "DOO_delta", "StoSOO", "SequOOL", "StroquOOL", "Zooming")
    for c in cases:
        if (c["n"] <= 333 or (c["algo"] in light and c["n"] <= 1300)) and rng.random() < 0.5:
            c["probe_stops"] = float(rng.choice([0.1, 0.3, 1.0])) if c["algo"] != "VROOM" else 0.05
            if c["algo"] in ("T_HOO", "HCT", "VHCT") + light:
                c["probe_stops"] = 1.0  # cheap recommendation: every stopping time T <= n is probed
            c["_cost"] *= 3
    return cases


def run_case(case):
    m = InBox()
    ctx = drive(case, [m], step_limit=STEP_LIMIT)
    return result_of(ctx, [m], owner_of_crashes=True)
