"""C14 - runs are reproducible, instances are isolated, user inputs are not mutated (metamorphic monitors)"""
import copy
import json
import os
import random
import subprocess
import sys
import time

import numpy as np

from .. import common as C
from .. import twin as TW

PROP = "C14"
RULE = ("four monitors over all 19 algorithm variants x all partitions x d=1..3: (repro) the same case run twice in "
        "one process must give bit-identical point sequences and recommendation, while wrappers count every call from "
        "PyXAB code into random.*, time.*, os.urandom, uuid, np.random.default_rng/seed and Python's "
        "global random state is compared before/after, and the user's box (values, nested list identities) is "
        "compared before/after; (hashseed) the case is re-run in two fresh interpreters with PYTHONHASHSEED=1 and "
        "=random and the digests compared; (interleave) two independently built instances (same or different classes) "
        "are driven by a random schedule - incl. B's whole rounds between A's pull and receive_reward - raw for "
        "RNG-free configurations and with NumPy's global state saved/restored per instance otherwise, and each must "
        "reproduce its solo sequence; (sandwich) X, then another instance of the same class on an equal-valued domain, then "
        "X again: the two X runs must be identical; non-trivial = >= 50 points compared")
ASSUMPTIONS = [
    "process-wide settings (np.geterr, np print options, recursion limit, number of warnings filters) changed by a run count as influence on other instances: they are the channel through which one instance reaches all others",
    "interleaving of RNG-consuming configurations saves/restores NumPy's global state per instance (stronger than the property requires: it asks for RNG-free partitions in the interleaving part)",
    "cases are generated where the documented loop completes (known findings of C01 excluded)",
    "a foreign entropy source bound at import time (from random import random) is seen through Python's global random state and through the twin runs, not through the call counters",
]
FLOOR = {"points_compared": {"quick": 60000, "thorough": 480000},
         "fresh_process_runs": {"quick": 60, "thorough": 480},
         "interleaved_schedules": {"quick": 120, "thorough": 960},
         "boxes_compared": {"quick": 600, "thorough": 4800},
         "sandwich_runs": {"quick": 150, "thorough": 1200}}
WALL = {"quick": 1200, "thorough": 4 * 3600}


FLAT_FAMS = ["const", "zero", "tied", "twoval", "neg", "noisy", "unit", "drift", "quant5", "bern", "const", "zero"]


class EntropyGuard:
    """counts calls into foreign entropy / clock sources whose caller is PyXAB code"""

    TARGETS = [(random, n) for n in ("random", "randint", "randrange", "choice", "choices", "uniform", "shuffle",
                                     "sample", "gauss", "seed", "getrandbits", "normalvariate", "betavariate")] + \
              [(time, n) for n in ("time", "perf_counter", "monotonic", "time_ns", "process_time", "perf_counter_ns")] + \
              [(os, "urandom"), (np.random, "default_rng"), (np.random, "seed")]

    def __init__(self):
        self.hits = []
        self.saved = []

    def __enter__(self):
        self.rstate = random.getstate()
        for mod, name in self.TARGETS:
            orig = getattr(mod, name, None)
            if orig is None:
                continue
            self.saved.append((mod, name, orig))

            def mk(orig=orig, label="%s.%s" % (mod.__name__, name)):
                def w(*a, **k):
                    f = sys._getframe(1)
                    if f.f_code.co_filename.startswith(C.PKG):
                        self.hits.append("%s from %s:%s" % (label, os.path.basename(f.f_code.co_filename), f.f_lineno))
                    return orig(*a, **k)
                return w
            setattr(mod, name, mk())
        return self

    def __exit__(self, *a):
        for mod, name, orig in self.saved:
            setattr(mod, name, orig)
        self.state_changed = random.getstate() != self.rstate
        return False


def box_fingerprint(box):
    return ([id(box)] + [id(iv) for iv in box], [[repr(v) for v in iv] for iv in box], [type(v).__name__ for iv in box
                                                                                         for v in iv])


def gen_cases(rng, tier, count=None):
    count = count or (1100 if tier == "quick" else 12000)
    out = []
    for i in range(count):
        k = i % 10
        algo = C.ALGOS[(i // 10 + i) % len(C.ALGOS)]
        if k < 2:
            c = TW.safe_case(rng, algo, tier)
            c["kind"] = "repro"
        elif k < 5:
            # sandwich: X, then another instance Y of the same class on an equal-valued domain (other partition,
            # parameters, seed, rewards), then X again: hidden state that outlives an instance (class-level caches,
            # shared lists) makes the second X differ from the first
            X = TW.safe_case(rng, algo, tier, n_choices=[100, 128, 150], fams=FLAT_FAMS)
            Y = TW.safe_case(rng, algo, tier, n_choices=[100, 128, 150], dim=len(X["box"]), fams=FLAT_FAMS)
            Y["box"] = [list(iv) for iv in X["box"]]
            c = dict(X)
            c.update(kind="sandwich", Y=Y, _cost=2 * X["_cost"] + Y["_cost"])
            if rng.random() < 0.4:
                c["fresh"] = True  # also compare with X run in a fresh interpreter (no process history at all)
                c["_cost"] += 1.0
        elif k < 6:
            c = TW.safe_case(rng, algo, tier, n_choices=[100, 128])
            c["kind"] = "hashseed"
            c["_cost"] = 1.5
        else:
            raw = k < 8
            algoB = C.ALGOS[int(rng.integers(len(C.ALGOS)))] if rng.random() < 0.35 else algo
            if raw:
                cands = [a for a in C.ALGOS if a != "VROOM"]
                if algo == "VROOM":
                    algo = "HCT"
                if algoB == "VROOM":
                    algoB = "T_HOO"
                pa, pb = str(rng.choice(C.RNG_FREE_1D)), str(rng.choice(C.RNG_FREE_1D))
                A = TW.safe_case(rng, algo, tier, part=pa, dim=1, n_choices=[100, 128, 150], fams=FLAT_FAMS)
                B = TW.safe_case(rng, algoB, tier, part=pb, dim=1, n_choices=[100, 128, 150], fams=FLAT_FAMS)
            else:
                A = TW.safe_case(rng, algo, tier, n_choices=[100, 128, 150], fams=FLAT_FAMS)
                B = TW.safe_case(rng, algoB, tier, n_choices=[100, 128, 150], fams=FLAT_FAMS,
                                 dim=len(A["box"]) if rng.random() < 0.6 else None)
            if rng.random() < 0.5 and len(A["box"]) == len(B["box"]):
                # the two instances get equal-valued (but separate) domain objects: hidden state keyed by the domain
                B["box"] = [list(iv) for iv in A["box"]]
                B["box_kind"] = A["box_kind"]
            elif rng.random() < 0.5:
                B["box"] = [list(A["box"][0]) for _ in B["box"]]
            c = {"kind": "interleave", "raw": raw, "A": A, "B": B, "sched_seed": int(rng.integers(1 << 30)),
                 "algo": "%s|%s" % (algo, algoB), "part": "%s|%s" % (A["part"], B["part"]), "box": A["box"],
                 "n": A["n"], "T": A["T"], "reward": A["reward"], "np_seed": A["np_seed"], "params": {},
                 "_cost": A["_cost"] + B["_cost"]}
        if k == 0 and i % 20 == 0:
            # the light algorithms with larger budgets and the recommendation asked after every round (StroquOOL has
            # two or more candidates only from n = 200 on)
            la = ["StroquOOL", "StroquOOL", "SequOOL", "SOO", "StoSOO", "DOO", "Zooming"][(i // 20) % 7]
            c = TW.safe_case(rng, la, tier, n_choices=[300, 500, 1000], fams=["noisy", "unit", "drift", "cl_sine", "cl_garland"])
            c["np_seed"] = int(c["np_seed"]) // 3 * 3
            c["kind"] = "repro"
        if c.get("kind") == "repro" and len(c["box"]) >= 2 and rng.random() < 0.25:
            # (all sides get the values of the first one, so that the descriptor's box is the box that is used - the
            # closed-loop reward families read it)
            c["box"] = [list(c["box"][0]) for _ in c["box"]]
            c["alias_box"] = True
        if c.get("kind") == "repro" and rng.random() < 0.12:
            # a side written [hi, lo] (the repository's own partition tests pass [-5, -10]): midpoints, widths and
            # uniform draws are symmetric in the two end points, the unchanged code runs the loop on such a box like
            # on any other - and must hand it back as it was
            j = int(rng.integers(len(c["box"])))
            c["box"] = [list(iv) for iv in c["box"]]
            c["box"][j] = [c["box"][j][1], c["box"][j][0]]
            c["reversed_side"] = True
            c.pop("alias_box", None)
        if rng.random() < 0.5:
            # the arity of a K-ary partition is bound with functools.partial on the library's own class instead of a
            # subclass per K: the instances of one run (and of the two interleaved runs) then share one class object
            for sub in (c, c.get("Y"), c.get("A"), c.get("B")):
                if isinstance(sub, dict):
                    sub["part_binding"] = "partial"
        out.append(c)
    return out


def V(viol, pred, **d):
    if len(viol) < 6:
        viol.append({"pred": pred, "round": d.pop("round", None), "detail": C.jsonable(d)})


def run_repro(case, viol, obs):
    fp0 = None
    # the two runs start from differently poisoned heaps (freed NumPy blocks full of NaN vs full of zeros): a read of
    # uninitialised memory (np.empty) makes them differ
    # a third of the twins also ask for the recommendation after every round (queries that raise because they come
    # too early are recorded as such in both runs)
    qs = range(case["T"]) if case.get("np_seed", 0) % 3 == 0 and case["algo"] != "VROOM" else None
    with EntropyGuard() as g:
        r1 = TW.run_points(case, poison=float("nan"), queries=qs)
    if r1["crash"]:
        return "crash:" + r1["crash"]
    ub = r1.get("user_box")
    case2 = case
    if case.get("alias_box") and all(list(iv) == list(case["box"][0]) for iv in case["box"]):
        # the first run was given domain = [side] * d (one list object for every coordinate); its twin gets an
        # equal-valued domain with a list of its own per coordinate: no dependence on object identity
        case2 = dict(case, box=[list(case["box"][0]) for _ in case["box"]])
        case2.pop("alias_box")
        obs["twins_aliased_vs_separate_side_lists"] += 1
    r2 = TW.run_points(case2, poison=[0.0, float("inf"), -1.0][case.get("np_seed", 0) % 3], queries=qs)
    if r1["qpoints"] != r2["qpoints"] and not r2["crash"]:
        V(viol, "C14:same_seed_and_inputs_give_different_recommendation", between_rounds=True)
    obs["points_compared"] += len(r1["points"]) + 1
    obs["twin_runs"] += 1
    d = TW.first_diff(r1["points"], r2["points"])
    if d or r2["crash"]:
        V(viol, "C14:same_seed_and_inputs_give_different_points", round=d[0] if d else None, first=d[1] if d else None,
          second=d[2] if d else r2["crash"])
    elif r1["last"] != r2["last"]:
        V(viol, "C14:same_seed_and_inputs_give_different_recommendation", first=r1["last"], second=r2["last"])
    obs["entropy_guard_runs"] += 1
    if g.hits:
        V(viol, "C14:foreign_entropy_or_clock_source_used", calls=g.hits[:5], count=len(g.hits))
    if g.state_changed:
        V(viol, "C14:python_global_random_state_advanced")
    check_box(r1, case, viol, obs)
    return None


def check_box(r, case, viol, obs):
    """the domain object handed to PyXAB (run_points hands over the very object it keeps) is compared with the
    descriptor's values and its nested list identities with those from before the run"""
    obs["process_state_comparisons"] += 1
    if r.get("process_state_changed"):
        # NumPy's floating-point error handling / print options, the recursion limit, the warnings filters: settings
        # of the whole process - changing them is a channel through which one instance reaches every other one
        V(viol, "C14:process_wide_state_changed_by_a_run", changed=r["process_state_changed"], algo=case.get("algo"))
    if r.get("crash") or "user_box" not in r:
        return
    ub = r["user_box"]
    want = copy.deepcopy(case["box"])
    if case.get("alias_box"):
        want = [want[0]] * len(want)  # the run was given domain = [first interval] * d
    obs["boxes_compared"] += 1
    if ub is None or len(ub) != len(want) or [[repr(v) for v in iv] for iv in ub] != [[repr(v) for v in iv] for iv in
                                                                                          want]:
        V(viol, "C14:user_domain_object_was_modified", before=want, after=ub, algo=case.get("algo"),
          part=case.get("part"))
    elif r.get("box_ids_before") != r.get("box_ids_after"):
        V(viol, "C14:user_domain_object_was_restructured", note="nested list objects replaced", algo=case.get("algo"),
          part=case.get("part"))


def run_hashseed(case, viol, obs):
    r1 = TW.run_points(case)
    if r1["crash"]:
        return "crash:" + r1["crash"]
    check_box(r1, case, viol, obs)
    d0 = TW.digest(r1["points"], r1["last"])
    env = dict(os.environ)
    env["PYTHONPATH"] = C.REPO + os.pathsep + C.VERIF
    js = json.dumps({k: v for k, v in case.items() if not k.startswith("_")})
    for hs in ("1", "random"):
        env["PYTHONHASHSEED"] = hs
        try:
            p = subprocess.run([sys.executable, "-B", "-W", "ignore", "-m", "pyxabmon.twin"], input=js, text=True,
                               capture_output=True, env=env, cwd=C.VERIF, timeout=300 * float(os.environ.get("PYXABMON_WALL_SCALE", "1") or 1))
        except subprocess.TimeoutExpired:
            return "watchdog"
        line = [l for l in p.stdout.splitlines() if l.startswith("DIGEST")]
        if not line:
            return "harness:" + p.stderr[-400:]
        obs["fresh_process_runs"] += 1
        obs["points_compared"] += len(r1["points"]) + 1
        if line[0].split()[1] != d0:
            V(viol, "C14:fresh_process_with_other_hash_seed_gives_different_points", hashseed=hs)
    return None


def run_sandwich(case, viol, obs):
    X, Y = {k: v for k, v in case.items() if k not in ("Y", "kind")}, case["Y"]
    r1 = TW.run_points(X)
    if r1["crash"]:
        return "crash:" + r1["crash"]
    check_box(r1, X, viol, obs)
    check_box(TW.run_points(Y), Y, viol, obs)
    r2 = TW.run_points(X)
    obs["sandwich_runs"] += 1
    obs["points_compared"] += len(r1["points"]) + 1
    d = TW.first_diff(r1["points"], r2["points"])
    if d or r2["crash"] or r1["last"] != r2["last"]:
        V(viol, "C14:run_differs_after_another_instance_of_the_class_was_used", round=d[0] if d else None,
          before=d[1] if d else r1["last"], after=d[2] if d else (r2["crash"] or r2["last"]), other_part=Y["part"])
    elif case.get("fresh"):
        # r1 itself ran in a worker that has a history of other cases: the ground truth is a fresh interpreter
        dg = fresh_digest(X, "0")
        if dg is None:
            return "watchdog"
        obs["fresh_process_runs"] += 1
        if dg != TW.digest(r2["points"], r2["last"]):
            V(viol, "C14:run_in_a_process_with_history_differs_from_a_fresh_process", other_part=Y["part"],
              other_params=Y.get("params"))
    return None


def fresh_digest(case, hashseed):
    env = dict(os.environ)
    env["PYTHONPATH"] = C.REPO + os.pathsep + C.VERIF
    env["PYTHONHASHSEED"] = hashseed
    js = json.dumps({k: v for k, v in case.items() if not k.startswith("_")})
    try:
        p = subprocess.run([sys.executable, "-B", "-W", "ignore", "-m", "pyxabmon.twin"], input=js, text=True,
                           capture_output=True, env=env, cwd=C.VERIF, timeout=300 * float(os.environ.get("PYXABMON_WALL_SCALE", "1") or 1))
    except subprocess.TimeoutExpired:
        return None
    line = [l for l in p.stdout.splitlines() if l.startswith("DIGEST")]
    return line[0].split()[1] if line else None


def run_interleave(case, viol, obs):
    A, B, raw = case["A"], case["B"], case["raw"]
    solo = {"A": TW.run_points(dict(A, no_last=True)), "B": TW.run_points(dict(B, no_last=True))}
    if solo["A"]["crash"] or solo["B"]["crash"]:
        return "crash:%s|%s" % (solo["A"]["crash"], solo["B"]["crash"])
    check_box(solo["A"], dict(A, no_last=True), viol, obs)
    check_box(solo["B"], dict(B, no_last=True), viol, obs)
    rng = np.random.default_rng([case["sched_seed"], 3])
    cases = {"A": A, "B": B}
    states, algo, pts, pos = {}, {}, {"A": [], "B": []}, {"A": 0, "B": 0}
    pending = {"A": None, "B": None}
    rew = {X: C.open_rewards(c["reward"]["family"], c["reward"]["seed"], max(c["T"], 1)) for X, c in cases.items()}

    budget = C.StepBudget(5 * 10 ** 6)  # logical steps per API call: a hang ends the run, whatever the machine load

    def call(X, f):
        budget.reset()
        if raw:
            return f()
        np.random.set_state(states[X])
        try:
            return f()
        finally:
            states[X] = np.random.get_state()
    order = ["A", "B"] if rng.random() < 0.5 else ["B", "A"]
    for X in order:
        np.random.seed(cases[X]["np_seed"])
        states[X] = np.random.get_state()
    for X in order:
        P = C.plain_part_class(cases[X]["part"], cases[X].get("part_binding"))
        algo[X] = call(X, lambda: C.build(cases[X], P))
    nsw = 0
    last = None
    budget.on()
    try:
        while pos["A"] < A["T"] or pos["B"] < B["T"]:
            live = [X for X in "AB" if pos[X] < cases[X]["T"]]
            X = live[int(rng.integers(len(live)))]
            # with probability 1/3 run a burst of whole rounds of X (possibly between the other's pull and reward)
            steps = 1 if rng.random() < 0.67 else int(rng.integers(2, 9))
            for _ in range(steps):
                if pos[X] >= cases[X]["T"]:
                    break
                t = pos[X] + 1
                if pending[X] is None:
                    p = call(X, lambda: algo[X].pull(t))
                    pts[X].append(list(p))
                    pending[X] = t
                else:
                    call(X, lambda: algo[X].receive_reward(t, float(rew[X][pos[X]])))
                    pending[X] = None
                    pos[X] += 1
            if last is not None and last != X:
                nsw += 1
            last = X
    except C.StepBudgetExceeded:
        V(viol, "C14:interleaved_instance_hangs_where_its_solo_run_does_not", raw=raw)
        return None
    except Exception as e:
        V(viol, "C14:interleaved_instance_raises_where_its_solo_run_does_not", error="%s: %s" % (type(e).__name__, e),
          raw=raw)
        return None
    finally:
        budget.off()
    obs["interleaved_schedules"] += 1
    obs["instance_switches"] += nsw
    obs["interleavings_%s" % ("raw" if raw else "rng_state_swapped")] += 1
    for X in "AB":
        obs["points_compared"] += len(pts[X])
        d = TW.first_diff(solo[X]["points"], pts[X])
        if d:
            V(viol, "C14:interleaved_instance_differs_from_its_solo_run", instance=X, algo=cases[X]["algo"],
              other=cases["B" if X == "A" else "A"]["algo"], round=d[0], solo=d[1], interleaved=d[2], raw=raw)
    return None


def run_case(case):
    viol, obs = [], __import__("collections").Counter()
    kind = case.get("kind", "repro")
    why = {"repro": run_repro, "hashseed": run_hashseed, "interleave": run_interleave, "sandwich": run_sandwich}[kind](case, viol, obs)
    res = {"viol": viol, "obs": dict(obs), "nontrivial": obs.get("points_compared", 0) >= 50}
    if why:
        if why.startswith("crash"):
            res["crash_other"] = "%s:%s" % (case.get("algo"), why[:60])
        elif why.startswith("watchdog"):
            return {"watchdog": True}
        else:
            return {"harness": why}
    return res
