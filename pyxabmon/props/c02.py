"""C02 - child cells exactly tile their parent cell in every partition (partmon.py)"""
import numpy as np

from .. import common as C
from .. import gen
from .. import partmon as PM
from ..driver import drive, result_of

PROP = "C02"
RULE = ("(a) partition-only histories: class x K in {2..8, 10, 16, 32, 64} x dimension 1..4 x hostile box (adjacent floats, denormal widths, "
        "+-1e300, 1e16+ulps, mixed scales) x random interleaving of deepen()/make_children(leaf) x injected outcomes "
        "of np.random.uniform (end points and their float neighbours); every split checked bit-exactly, also through "
        "an icontract post-condition on the real make_children; leaves of the final tree tile the root; (b) every "
        "split performed inside runs of all algorithms; non-trivial = >= 5 operations and depth >= 2 (a), >= 10 "
        "splits (b)")
ASSUMPTIONS = [
    "floats are sampled adversarially; 'arbitrary real bounds' (the continuum) is out of reach of execution",
    "boxes satisfy |lo+hi| <= 1e300 per dimension",
    "equal-size classes: child widths within 4 ulp(end points) + K ulp(width) of (hi-lo)/K (np.linspace multiplies a rounded step by i <= K; the second term only matters for subnormal widths)",
    "a split of a zero-width dimension yields children identical to the parent: accepted (empty interiors)",
    "np.random.uniform may return either end point (NumPy documents [low, high) but rounding can give high)",
]
FLOOR = {"splits_checked": {"quick": 30000, "thorough": 240000},
         "leaf_tilings_checked": {"quick": 500, "thorough": 4000},
         "contract_evaluations": {"quick": 5000, "thorough": 40000}}
WALL = {"quick": 1200, "thorough": 4 * 3600}


def gen_cases(rng, tier, count=None):
    count = count or (1400 if tier == "quick" else 24000)
    out = []
    for i in range(count):
        if i % 7 == 6:
            a = C.ALGOS[(i // 7) % len(C.ALGOS)]
            c = gen.algo_case(rng, a, tier, early_stop=False, inject_p=0.3,
                              n_choices=[100, 150, 200] if tier == "quick" else [100, 200, 400])
            out.append(c)
            continue
        name = C.PART_NAMES_WIDE[i % len(C.PART_NAMES_WIDE)]
        dim = int(rng.integers(1, 5))
        if name == "DimBin":
            dim = int(rng.integers(1, 5)) if rng.random() < 0.3 else int(rng.integers(1, 4))
        box = PM.hostile_box(rng, dim) if rng.random() < 0.7 else C.gen_box(rng, dim)[0]
        c = {"kind": "partition", "part": name, "box": box, "np_seed": int(rng.integers(1 << 30)),
             "ops_seed": int(rng.integers(1 << 30)), "steps": int(rng.integers(6, 40)),
             "p_deepen": float(rng.choice([0.0, 0.3, 0.6])), "max_nodes": 900, "_cost": 0.05}
        if dim >= 2 and rng.random() < 0.12:
            c["box"] = [list(box[0]) for _ in box]
            c["alias_box"] = True
        big = name in ("K32", "K64", "RK32", "RK64")
        if rng.random() < 0.15 or big:
            c.update(chain=str(rng.choice(["last", "random", "origin"])), p_deepen=0.0,
                     steps=int(rng.integers(45, 90)), max_nodes=8000)
            if big or rng.random() < 0.3:
                # a box with 0 in its interior, followed towards the origin (cells straddling zero)
                c["box"] = [[-float(rng.choice([1.0, 2.5, 0.3, 10.0])), float(rng.choice([1.0, 7.5, 0.1, 1.0]))]
                            for _ in box]
                c["chain"] = "origin"
                c.pop("alias_box", None)
        if rng.random() < 0.25 and not big:
            # a second partition of the same class over another box is alive and grows in between
            d2 = dim if rng.random() < 0.7 else int(rng.integers(1, 4))
            c["companion"] = {"box": C.gen_box(rng, d2)[0], "built_first": bool(rng.random() < 0.5)}
        if name.startswith("R") and rng.random() < 0.6:
            c["inject"] = {"uniform_p": float(rng.choice([0.2, 0.5, 1.0])), "seed": int(rng.integers(1 << 30))}
        out.append(c)
    return out


def run_case(case):
    if case.get("kind") == "partition":
        return PM.run_partition_case(case, PROP)
    m = PM.SplitMon()
    ctx = drive(case, [m])
    return result_of(ctx, [m], prefix=PROP, nontrivial=lambda ctx, res: res["obs"].get("splits_checked", 0) >= 10)
