"""C04 - every reward is credited exactly once to the cell(s) that produced the point"""
from .. import common as C
from .. import gen
from . import treeshared as TS

PROP = "C04"
RULE = ("all algorithm families: tree bandits (ledger vs counts/reward lists/means/variances of every cell reachable "
        "from the root, after every round), wrappers POO/GPO/PCT/VPCT (recording subclasses of the base learner: each "
        "reward to exactly the proposing learner or to the validation score; tree ledger inside every learner), "
        "SOO/DOO/StoSOO/SequOOL/StroquOOL (per-cell ledger by point identity), Zooming (per-arm ledger), VROOM "
        "(credited set = sampled cell and the chain it drew the point from); non-trivial = >= 30 rounds and >= 100 "
        "cell/arm/score comparisons")
ASSUMPTIONS = [
    "the pulled cell is identified by the identity of the point object returned by pull (value equality is ambiguous for odd K where the middle child shares its parent's centre)",
    "rounds after an algorithm's own termination (StroquOOL after `end`, GPO after its last phase) are known findings: the reward is recorded nowhere; any statistic that changes in such a round is still a violation",
    "StroquOOL's final candidates restart their reward list when validation begins (documented exception): the list must be the cell's rewards since one common round",
    "means compared to rel. 1e-9 (math.fsum reference vs NumPy summation), variances to rel. 1e-7",
]
FLOOR = {"cells_compared": {"quick": 500000, "thorough": 4000000},
         "arms_compared": {"quick": 2000, "thorough": 16000},
         "poo_scores_compared": {"quick": 1000, "thorough": 8000},
         "gpo_scores_compared": {"quick": 300, "thorough": 2400},
         "vroom_chains_checked": {"quick": 500, "thorough": 4000}}
WALL = {"quick": 1500, "thorough": 5 * 3600}
SIMPLE = ["SOO", "DOO", "DOO_delta", "StoSOO", "SequOOL", "StroquOOL"]


def gen_cases(rng, tier, count=None):
    count = count or (320 if tier == "quick" else 6000)
    out = []
    for i in range(count):
        k = i % 20
        if k < 7:
            out.append(TS.tree_case(rng, tier, C.TREE_BANDITS[i % 3]))
        elif k < 11:
            out.append(TS.wrapper_case(rng, tier))
        elif k < 16:
            a = SIMPLE[i % len(SIMPLE)]
            c = gen.algo_case(rng, a, tier, fams=TS.FAMS, early_stop=False)
            if a == "StoSOO" and rng.random() < 0.35:
                # a cap one or two levels too tight: the run ends when pull returns None; until then (and in any
                # round an implementation serves instead) every reward must be credited to the pulled cell
                c["params"]["h_max"] = max(1, c["params"]["h_max"] - int(rng.integers(1, 3)))
            out.append(gen.add_midqueries(rng, gen.add_queries(rng, c, 0.4)))
        elif k < 18:
            c = gen.algo_case(rng, "Zooming", tier, fams=TS.FAMS, early_stop=False,
                              n_choices=[100, 200, 300] if tier == "quick" else [200, 500, 1000])
            c["params"] = {"nu": float(10 ** rng.uniform(-0.5, 1.5)), "rho": float(rng.uniform(0.4, 0.95))}
            out.append(gen.add_midqueries(rng, c))
        else:
            out.append(gen.add_midqueries(rng, gen.algo_case(rng, "VROOM", tier, fams=TS.FAMS, early_stop=False,
                                                             inject_p=0.2, n_choices=[100, 128, 200]), 0.4))
    return out


def nontrivial(ctx, res):
    o = res["obs"]
    n = o.get("cells_compared", 0) + o.get("arms_compared", 0) + o.get("poo_scores_compared", 0) + o.get(
        "gpo_scores_compared", 0) + o.get("vroom_chains_checked", 0)
    return ctx.round >= 30 and n >= 100


def run_case(case):
    return TS.run(case, PROP, nontrivial)
