"""C09 - GPO/PCT/VPCT run the published schedule of base learners and validation"""
import math

from .. import common as C
from .. import gen
from ..driver import drive, result_of
from ..wrapmon import Recorder, WrapMon, base_kind, patched_pct, recording_learner, stub_learner
from . import treeshared as TS

PROP = "C09"
RULE = ("(a) schedule enumeration with an O(1) stub learner named like the real class: EVERY budget n in 100..400 "
        "(quick) / 100..3000 (thorough) x a rhomax grid of 24 / 40 points in (0.02,0.98) with floor(n/2N) >= 1, "
        "reward = round index so that any mis-routed reward moves a mean; (b) GPO x {T_HOO,HCT,VHCT}, PCT, VPCT with "
        "the real learners (recording subclasses; PCT/VPCT: module attribute replaced during construction) on all "
        "partitions with random rewards; the recorded trace (constructor arguments, pulls, rewards per learner, "
        "returned point objects, scores) must equal the reference schedule N=ceil(.5 Dmax ln((n/2)/ln(n/2))), "
        "H=floor(n/2N), rho_i=rhomax^(2N/(2i+1)); non-trivial = >= 2 learners created and >= 1 validation score compared")
ASSUMPTIONS = [
    "(n, rhomax) whose real-valued N is within 1e-9 of an integer are skipped as ambiguous and counted",
    "budgets with floor(n/2N) == 0 are a known finding of C01 and are not judged",
    "the base learners of a wrapper work on the search space the wrapper was given: their partition is an instance of the partition class passed to the wrapper and has the wrapper's domain (C10 likewise)",
    "the schedule is enumerated completely over the stated (n, rhomax) grid; reward histories are sampled",
]
FLOOR = {"gpo_rounds_checked": {"quick": 600000, "thorough": 4800000},
         "learners_created": {"quick": 12000, "thorough": 96000},
         "gpo_scores_compared": {"quick": 250000, "thorough": 2000000},
         "recommendations_checked": {"quick": 3000, "thorough": 24000}}
WALL = {"quick": 1200, "thorough": 5 * 3600}


def grid(k):
    return [0.02 + 0.96 * j / (k - 1) for j in range(k)]


def gen_cases(rng, tier, count=None):
    out = []
    ns = range(100, 401) if tier == "quick" else range(100, 3001)
    g = grid(24 if tier == "quick" else 40)
    if count:
        ns = list(ns)[:max(1, count // len(g))]
    for n in ns:
        for rm in g:
            N, H, x = C.gpo_N_H(n, rm)
            if H < 1:
                continue
            out.append({"algo": "GPO_HCT", "stub": True, "part": "Bin", "box": [[0.0, 1.0]], "box_kind": "unit", "n": n,
                        "T": n, "params": {"nu": 1.5, "rhomax": rm}, "np_seed": 0,
                        "reward": {"family": "roundidx", "seed": 0}, "_cost": 2e-5 * n})
    # long budgets with few learners: half-phase lengths H from a few dozen to several thousand rounds (counters far
    # beyond anything the enumeration above reaches; the thorough enumeration goes to H = 1500)
    for n in ([1000, 1550, 2000, 4000, 8000, 20000] if not count else []):
        for rm in (0.1, 0.3, 0.5, 0.7, 0.8, 0.9):
            N, H, x = C.gpo_N_H(n, rm)
            if H < 1 or abs(x - round(x)) < 1e-9:
                continue
            out.append({"algo": "GPO_HCT", "stub": True, "part": "Bin", "box": [[0.0, 1.0]], "box_kind": "unit", "n": n,
                        "T": n, "params": {"nu": 1.5, "rhomax": rm}, "np_seed": 0,
                        "reward": {"family": "roundidx" if n % 2000 else "sin3", "seed": 0}, "_cost": 2e-5 * n})
    nreal = (count // 4 if count else None) or (160 if tier == "quick" else 3000)
    gp = [a for a in C.WRAPPERS if C.family(a) == "GPO"]
    for i in range(nreal):
        c = TS.wrapper_case(rng, tier, gp[i % len(gp)])
        c["T"] = c["n"]
        N, H, _ = C.gpo_N_H(c["n"], c["params"]["rhomax"])
        # get_last_point before the first validation round raises (known finding of C01): query later
        c["queries"] = sorted(int(x) for x in rng.integers(min(H + 1, c["T"] - 1), c["T"], size=int(rng.integers(0, 3))))
        out.append(c)
    return out


def nontrivial(ctx, res):
    o = res["obs"]
    return o.get("learners_created", 0) >= 2 and o.get("gpo_scores_compared", 0) >= 1


def run_case(case):
    rec = Recorder()
    m = WrapMon(rec, with_tree=False)
    cm = None
    if case.get("stub"):
        lc = recording_learner(stub_learner(base_kind(case["algo"])), rec)
    elif case["algo"] in ("PCT", "VPCT"):
        lc, cm = None, patched_pct(case, rec)
    else:
        lc = recording_learner(C.BASE_LEARNERS[base_kind(case["algo"])], rec)
    ctx = drive(case, [m], learner_cls=lc, build_cm=cm, use_budget=not case.get("stub"), own=PROP)
    res = result_of(ctx, [m], prefix=PROP, nontrivial=nontrivial)
    if case.get("stub"):
        res["obs"]["stub_schedules_enumerated"] = 1
    elif cm is not None and not rec.learners:
        # the recording class was never instantiated: the monitor saw nothing -> not a verdict
        res["obs"]["pct_recorder_bypassed"] = 1
    return res
