"""C03 - partition tree and its per-depth node index stay mutually consistent (partmon.py)"""
from .. import common as C
from .. import gen
from .. import partmon as PM
from ..driver import drive, result_of

PROP = "C03"
RULE = ("(a) partition-only histories: every interleaving class of deepen() / make_children(leaf, newlayer = leaf at "
        "deepest level) on all 21 partition variants (K up to 16), walker after every operation and an icontract class invariant "
        "on the real class; (b) runs of all 19 algorithm variants, walker on every partition of the run (incl. each "
        "base learner of POO/GPO) after construction, after every receive_reward, after every get_last_point (queried "
        "between rounds - sparse or after every round - and between pull and receive_reward) and at the end; non-trivial = depth >= 2 and >= 5 operations (a) / >= 30 rounds (b)")
ASSUMPTIONS = [
    "list aliasing as such is not judged, only its observable consequence (a child list holding another cell's children)",
    "VROOM on non-binary partitions, GPO without budget etc. crash (known findings of C01); the tree is judged up to the crash",
]
FLOOR = {"tree_walks": {"quick": 50000, "thorough": 400000},
         "contract_evaluations": {"quick": 5000, "thorough": 40000}}
WALL = {"quick": 1200, "thorough": 4 * 3600}


def gen_cases(rng, tier, count=None):
    count = count or (1200 if tier == "quick" else 16000)
    out = []
    for i in range(count):
        if i % 3 == 2:
            a = C.ALGOS[(i // 3) % len(C.ALGOS)]
            kind = "ulps" if (a == "Zooming" and rng.random() < 0.4) or rng.random() < 0.05 else None
            cheap = a in ("SOO", "DOO", "DOO_delta", "SequOOL", "StroquOOL", "StoSOO", "Zooming")
            nch = [100, 150, 200, 300] if tier == "quick" else [100, 200, 400, 800]
            if cheap:
                nch = nch + [500, 700, 1000, 1300]  # some schedules only reach their rare branches for larger budgets
            c = gen.algo_case(rng, a, tier, box_kind=kind, n_choices=nch)
            if cheap and rng.random() < 0.4:
                c["n"] = c["T"] = int(rng.integers(100, 1500))
            if a == "Zooming":
                c["params"] = {"nu": float(10 ** rng.uniform(-0.5, 1.5)), "rho": float(rng.uniform(0.4, 0.95))}
                c["T"] = c["n"]
            if a in C.TREE_BANDITS:
                from .treeshared import tree_params
                c["params"] = tree_params(rng, a)
            if rng.random() < 0.4:
                c["reward"]["family"] = str(rng.choice(["zero", "tied", "const", "twoval", "cl_step"]))
            out.append(gen.add_midqueries(rng, gen.add_queries(rng, c, 0.5), 0.25))
            continue
        name = [x for x in C.PART_NAMES_WIDE if x[-2:] not in ("32", "64")][i % (len(C.PART_NAMES_WIDE) - 4)]
        dim = int(rng.integers(1, 4))
        c = {"kind": "partition", "part": name, "box": C.gen_box(rng, dim)[0], "np_seed": int(rng.integers(1 << 30)),
             "ops_seed": int(rng.integers(1 << 30)), "steps": int(rng.integers(6, 30)),
             "p_deepen": float(rng.choice([0.0, 0.3, 0.7])), "max_nodes": 300, "_cost": 0.1}
        if rng.random() < 0.25:
            # one very deep path (labels grow like K^depth: beyond 2^63 from depth 28 (K=5) / 40 (K=3) / 64 (K=2))
            c.update(chain=str(rng.choice(["last", "random"])), p_deepen=0.0, steps=int(rng.integers(45, 90)))
        elif rng.random() < 0.3:
            # a second partition of the same class over another box is alive and grows in between (class-level lists)
            c["companion"] = {"box": C.gen_box(rng, dim if rng.random() < 0.7 else int(rng.integers(1, 4)))[0],
                              "built_first": bool(rng.random() < 0.5)}
        out.append(c)
    # the light algorithms once more, with the recommendation asked after every round (a query that touches the
    # per-depth lists does so in particular rounds only) and value-poor reward histories
    light = ["SOO", "DOO", "DOO_delta", "SequOOL", "StroquOOL", "StoSOO", "Zooming"]
    for i in range(140 if tier == "quick" else 2000):
        a = light[i % len(light)]
        c = gen.algo_case(rng, a, tier, n_choices=[100, 150, 200, 300, 500])
        if rng.random() < 0.6:
            c["reward"]["family"] = str(rng.choice(["zero", "tied", "const", "twoval", "negzero", "nonpos3", "bern"]))
        if a in ("SOO", "StoSOO") and rng.random() < 0.25:
            # a depth cap that is reached early: cells AT the cap are expanded (their children are never evaluated)
            # and the run goes on until the cells above the cap are used up (pull then returns None / spins: C01's
            # business, the tree is judged up to there)
            c["params"]["h_max"] = int(rng.integers(1, 5))
        T = c["T"]
        if rng.random() < 0.6:
            c["queries"] = list(range(T))
            c["tolerate_query_errors"] = True
            out.append(gen.add_midqueries(rng, c, 0.25) if a not in ("SequOOL", "StroquOOL") else c)
        else:
            out.append(gen.add_midqueries(rng, gen.add_queries(rng, c, 0.5), 0.25))
    # long Zooming runs (several thousand rounds): bookkeeping slips of the arm table damage the tree only when a
    # rarely played arm finally reaches its refinement threshold
    for i in range(24 if tier == "quick" else 160):
        T = int(rng.integers(6000, 16001))
        c = gen.algo_case(rng, "Zooming", tier, n=T, T=T, dim=2, part=str(rng.choice(["DimBin", "DimBin", "DimBin", "K3", "RBin"])),
                          fams=["cl_hump", "cl_sine", "cl_garland", "noisy", "unit"], box_kind="unit")
        c["params"] = {"nu": float(rng.uniform(0.5, 2.0)), "rho": float(rng.uniform(0.5, 0.8))}
        c["walk_every"] = 25
        c["_cost"] = 30.0
        out.append(c)
    return out


def run_case(case):
    if case.get("kind") == "partition":
        return PM.run_partition_case(case, PROP)
    m = PM.IndexMon(every=case.get("walk_every") or (1 if case["T"] <= 300 else 3))
    ctx = drive(case, [m])
    return result_of(ctx, [m], prefix=PROP, nontrivial=lambda ctx, res: ctx.round >= 30)
