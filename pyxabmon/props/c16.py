"""C16 - algorithms see the domain only through the partition: affine equivariance (metamorphic)"""
import collections
from fractions import Fraction as F

import numpy as np

from .. import common as C
from .. import twin as TW

PROP = "C16"
EXACT_PARTS = ["Bin", "DimBin", "K2", "K4"]
RULE = ("the same case is run on a box D and on s*D+b with identical seed and rewards. Exact tier: Bin/DimBin/K2/K4, "
        "dyadic boxes, b dyadic (up to 2^33), s = 2^m (m in -24..24): every point and the recommendation must equal the image bit for bit (all "
        "algorithms except VROOM; DOO with its default diameter only under translation). Tolerance tier: any s>0 and "
        "b (half of them 1..1e9 away from the origin), all partitions: within 1e-9*|s|*width + 256 ulp(image magnitude) of the image (all algorithms except DOO-default and "
        "Zooming on the even equal-size partitions, where an ulp decides which child keeps the arm); non-trivial = "
        ">= 50 points compared")
ASSUMPTIONS = [
    "exact tier uses maps that are exact in binary floating point (power-of-two scaling, dyadic translation of dyadic boxes); a run is compared bit for bit up to the first point with more than 40 fractional bits or whose image s*x+b is not exactly representable or has more than 50 significant bits (then the image run's own midpoint sums lo+hi would round)",
    "VROOM's lo + (hi-lo)*u sampling is not bit-exactly translation invariant: tolerance tier only",
    "DOO's default diameter function depends on cell size: translation only (documented exception)",
    "a genuine coordinate dependence moves points by whole cell widths, 6+ orders of magnitude above the tolerance",
]
FLOOR = {"points_compared": {"quick": 150000, "thorough": 1800000},
         "points_compared_bit_exactly": {"quick": 60000, "thorough": 720000},
         "exact_twins": {"quick": 600, "thorough": 7200},
         "tolerance_twins": {"quick": 600, "thorough": 7200}}
WALL = {"quick": 1200, "thorough": 4 * 3600}
ALG = [a for a in C.ALGOS]


def sigbits(v):
    """number of significant bits of a float (distance between its highest and lowest set bit + 1)"""
    if v == 0:
        return 0
    m = abs(F(v))
    n, d = m.numerator, m.denominator  # d is a power of two
    while n % 2 == 0:
        n //= 2
    return n.bit_length() if d == 1 else (m.numerator.bit_length() - (len(bin(m.numerator)) - len(bin(m.numerator).rstrip("0"))))


def gen_cases(rng, tier, count=None):
    count = count or (3000 if tier == "quick" else 36000)
    out = []
    for i in range(count):
        algo = ALG[(i // 2 + i) % len(ALG)]
        exact = i % 2 == 0
        dim = int(rng.integers(1, 4))
        if exact:
            if algo == "VROOM":
                algo = "HCT"
            part = str(rng.choice(EXACT_PARTS))
            if algo == "VROOM":
                part = str(rng.choice(["Bin", "K2"]))
            c = TW.safe_case(rng, algo, tier, part=part, dim=dim)
            box = []
            for _ in range(dim):
                lo = float(rng.integers(-8, 8)) / 4
                box.append([lo, lo + float(2.0 ** rng.integers(-3, 4))])
            if rng.random() < 0.5:
                s = float(2.0 ** rng.integers(-3, 4))
                b = [float(rng.integers(-64, 64)) / 8 for _ in range(dim)]
            else:
                # far from the origin / tiny or huge scale (still exact: power-of-two scale, dyadic translation)
                s = float(2.0 ** rng.integers(-24, 25))
                b = [float(rng.integers(-64, 64)) * float(2.0 ** rng.integers(-3, 28)) for _ in range(dim)]
            if rng.random() < 0.25:
                # pure scaling by an extreme power of two (exact as long as nothing under/overflows): boxes 2^-80 ..
                # 2^60 wide, anisotropic (the sides of the base box differ by up to 2^6)
                s = float(2.0 ** rng.integers(-80, 61))
                if rng.random() < 0.4:
                    # scales at which a side of the image box crosses a constant of the float format (machine epsilon
                    # 2^-52, float32's 2^-23, 2^-10 .. 2^-8 = typical 'small number' literals, 1)
                    s = float(2.0 ** (int(rng.choice([-52, -52, -23, -10, -8, 0])) + int(rng.integers(-5, 6))))
                elif rng.random() < 0.45:
                    # scales at which products of widths (squared norms, volumes) under- or overflow although every
                    # coordinate is a normal, exactly representable float: 2^-650 .. 2^-300 and 2^300 .. 2^650 (squares of
                    # widths underflow from about 2^-538 on)
                    s = float(2.0 ** (int(rng.integers(300, 651) if rng.random() < 0.4 else rng.integers(500, 651)) * (-1 if rng.random() < 0.65 else 1)))
                b = [0.0] * dim
            if algo == "DOO":
                s = 1.0
        else:
            doo_default = algo == "DOO" and rng.random() < 0.6
            if algo == "DOO" and not doo_default:
                algo = "DOO_delta"
            part = None
            if algo == "Zooming":
                # not K2 / K4: there np.linspace's middle boundary and the cell centre (lo+hi)/2 are different
                # expressions and an ulp decides which child keeps the arm; Bin / DimBin compute both the same way
                part = str(rng.choice(["Bin", "DimBin"])) if rng.random() < 0.5 else str(rng.choice(
                    [p for p in C.PART_NAMES if p not in EXACT_PARTS]))
            c = TW.safe_case(rng, algo, tier, part=part, dim=dim)
            box = []
            for _ in range(dim):
                lo = float(rng.uniform(-5, 5))
                box.append([lo, lo + float(10 ** rng.uniform(-2, 2))])
            s = float(10 ** rng.uniform(-2, 2))
            if rng.random() < 0.5 or algo == "Zooming":
                # (Zooming compares the arm with the children's faces: far from the origin the float grid becomes
                # comparable to the cell width and rounding, not geometry, decides which child keeps the arm)
                b = [float(rng.uniform(-100, 100)) for _ in range(dim)]
            else:
                b = [float(rng.choice([-1, 1]) * 10 ** rng.uniform(0, 9)) for _ in range(dim)]
            if doo_default:
                # (continuous rewards: delta(h) looks at the first coordinate only, so in d >= 2 consecutive depths
                # share one delta and equal rewards would tie exactly - a non-dyadic translation rounds those deltas
                # differently and the tie is then broken by an ulp, not by a coordinate)
                c["reward"]["family"] = str(rng.choice(["noisy", "unit", "large", "drift"]))
                # DOO's default diameter depends on the cell sizes only: pure translation, all partitions, d >= 2 and
                # boxes that straddle 0 asymmetrically (where a sign-dependent diameter would differ from its image)
                s = 1.0
                if rng.random() < 0.7:
                    box = [[-float(10 ** rng.uniform(-1, 1)), float(10 ** rng.uniform(-1, 1))] for _ in range(dim)]
                b = [float(rng.uniform(-100, 100)) for _ in range(dim)]
        if i % 10 == 8:
            # tie-rich slice: discrete rewards in d >= 2, recommendation asked after every round - tie-breaking rules
            # are where coordinates can sneak into a decision
            algo = str(rng.choice(["StroquOOL", "SequOOL", "SOO", "StoSOO", "DOO_delta", "HCT", "T_HOO", "POO_HCT"]))
            dim = int(rng.integers(2, 4))
            c = TW.safe_case(rng, algo, tier, part=str(rng.choice(EXACT_PARTS)) if exact else None, dim=dim,
                             n_choices=[150, 200, 250, 300, 330],
                             fams=["const", "bern", "tied", "quant5", "twoval", "zero", "negbern"])
            c["np_seed"] = int(c["np_seed"]) // 4 * 4  # -> queries after every round
            if exact:
                box = [[float(rng.integers(-8, 8)) / 4, 0.0] for _ in range(dim)]
                for iv in box:
                    iv[1] = iv[0] + float(2.0 ** rng.integers(-2, 3))
                s = float(2.0 ** rng.integers(-3, 4))
                b = [float(rng.integers(-64, 64)) / 8 for _ in range(dim)]
            else:
                box = [[float(rng.uniform(-5, 5)), 0.0] for _ in range(dim)]
                for iv in box:
                    iv[1] = iv[0] + float(10 ** rng.uniform(-1, 1))
                s = float(10 ** rng.uniform(-1, 1))
                b = [float(rng.uniform(-100, 100)) for _ in range(dim)]
        if not exact and i % 10 == 9:
            # Zooming compares arm coordinates with cell faces: on Bin / DimBin the centre and the cut are the same
            # float expression, so the twins must agree; non-dyadic boxes that straddle 0 are where (lo+hi)/2 and
            # lo+(hi-lo)/2 round differently
            algo, part = "Zooming", str(rng.choice(["Bin", "DimBin"]))
            c = TW.safe_case(rng, algo, tier, part=part, dim=dim, n_choices=[200, 300, 400])
            box = [[-float(rng.uniform(0.05, 3)), float(rng.uniform(0.05, 3))] for _ in range(dim)]
            s = float(rng.choice([1.0, 1.0, 2.5, 0.37]))
            b = [float(rng.choice([1.0, 8.0, -16.0, 3.3, 100.0])) for _ in range(dim)]
        if dim >= 2 and rng.random() < 0.25:
            # a cube (all sides the same interval - what most users pass): its image under a translation with different
            # components has pairwise different sides, so anything that identifies a side by its VALUE shows
            box = [list(box[0]) for _ in range(dim)]
        c["box"] = box
        c.pop("alias_box", None)  # the image box has its own translation per coordinate
        c["box_kind"] = "dyadic" if exact else "affine"
        c["affine"] = {"s": s, "b": b, "exact": exact}
        out.append(c)
    for i in range(96 if tier == "quick" else 960):
        # pure scalings by 2^-650 .. 2^-520 and 2^480 .. 2^650 for the algorithms that grow deep trees on small
        # budgets: every coordinate stays a normal, exactly representable float, but squares of widths (norms,
        # volumes) under- or overflow - anything that looks at a cell's size in absolute terms shows
        algo = ["StoSOO", "SOO", "SequOOL", "StroquOOL", "T_HOO", "HCT", "Zooming", "DOO_delta"][i % 8]
        dim = int(rng.integers(1, 3))
        c = TW.safe_case(rng, algo, tier, part=str(rng.choice(EXACT_PARTS)), dim=dim, n_choices=[128, 150, 200])
        box = []
        for _ in range(dim):
            lo = float(rng.integers(-8, 8)) / 4
            box.append([lo, lo + float(2.0 ** rng.integers(-2, 2))])
        e = int(rng.integers(520, 651)) if rng.random() < 0.7 else -int(rng.integers(480, 651))
        c["box"] = box
        c.pop("alias_box", None)
        c["box_kind"] = "dyadic"
        c["affine"] = {"s": float(2.0 ** -e), "b": [0.0] * dim, "exact": True}
        out.append(c)
    return out


def run_case(case):
    viol, obs = [], collections.Counter()
    A = case["affine"]
    s, b, exact = A["s"], A["b"], A["exact"]
    qs = None
    if case["algo"] != "VROOM" and case["np_seed"] % 2 == 0:
        # also ask for the recommendation between rounds (after every round, or every 7th): it must map too
        qs = range(case["T"]) if case["np_seed"] % 4 == 0 else range(0, case["T"], 7)
    base = TW.run_points(case, queries=qs)
    if base["crash"]:
        return {"viol": [], "obs": {}, "nontrivial": False, "crash_other": "%s:%s" % (case["algo"], base["crash"][:60])}
    img_box = TW.affine_box(case["box"], s, b)
    img = TW.run_points(case, box=img_box, queries=qs)
    obs["exact_twins" if exact else "tolerance_twins"] += 1
    obs["points_compared"] += len(base["points"]) + 1
    if img["crash"]:
        viol.append({"pred": "C16:image_run_raises", "round": None, "detail": C.jsonable({"error": img["crash"], "s": s, "b": b})})
    else:
        if len(base["qpoints"]) != len(img["qpoints"]) or any((p == "ERR") != (q == "ERR") for p, q in zip(
                base["qpoints"], img["qpoints"])):
            viol.append({"pred": "C16:recommendation_queries_behave_differently_on_the_image", "round": None,
                         "detail": C.jsonable({"s": s, "b": b})})
        qpairs = [(p, q) for p, q in zip(base["qpoints"], img["qpoints"]) if p != "ERR"]
        obs["recommendations_compared"] += len(qpairs)
        seqs = list(zip(base["points"] + [base["last"]] + [p for p, _ in qpairs],
                        img["points"] + [img["last"]] + [q for _, q in qpairs]))
        past = False
        tol_ok = lambda want, q: all(abs(w - y) <= 1e-9 * abs(s) * (hi - lo) + 256 * float(np.spacing(
            abs(bj) + abs(s) * (abs(lo) + abs(hi)))) for w, y, (lo, hi), bj in zip(want, q, case["box"], b))
        for i, (p, q) in enumerate(seqs):
            want = [s * x + bj for x, bj in zip(p, b)]
            if exact:
                # exact arithmetic is guaranteed only while coordinates are dyadic with <= 40 fractional bits (cells
                # not yet a few ulps wide); deeper points belong to the tolerance tier
                if any((x * 2.0 ** 40) != int(x * 2.0 ** 40) or abs(x) > 1024 for x in p) or any(
                        F(s) * F(x) + F(bj) != F(w) or sigbits(w) > 50 for x, bj, w in zip(p, b, want)):
                    obs["exactness_horizon_reached"] += 1
                    past = True
                    if case["algo"] == "Zooming":
                        break  # its containment tests may legitimately go another way from here on
                    continue  # other algorithms never look at coordinates: later points are still compared
                if past:
                    # a point that looks exact may itself be the rounded centre of a cell a few ulps wide (e.g. 1.0
                    # for a cell just below 1, while its image near -0.125 sits on a finer grid): once the run has
                    # been past the horizon the remaining points are compared with the tolerance-tier rule
                    obs["points_compared_within_tolerance_past_the_horizon"] += 1
                    ok = tol_ok(want, q)
                else:
                    obs["points_compared_bit_exactly"] += 1
                    ok = want == q
            else:
                # relative to the box width, plus a few ulps of the image's magnitude (far from the origin the
                # image coordinates themselves are only known to an ulp)
                ok = tol_ok(want, q)
            if not ok:
                viol.append({"pred": "C16:points_are_not_the_affine_image" + ("_exactly" if exact else ""),
                             "round": i, "detail": C.jsonable({"point": p, "image_expected": want, "image_got": q,
                                                                "s": s, "b": b, "is_recommendation": i >= len(base["points"])})})
                break
    return {"viol": viol, "obs": dict(obs), "nontrivial": len(base["points"]) >= 50}
