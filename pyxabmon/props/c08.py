"""C08 - SOO, StoSOO and DOO evaluate and expand cells by their optimistic rule"""
from .. import common as C
from .. import gen
from ..driver import drive, result_of
from ..searchmon import SweepMon

PROP = "C08"
FAMS = ["int3wide", "hugeneg", "negbern", "nonpos3", "cl_negdist", "bern", "quant5", "neg", "const", "zero", "tied", "twoval", "noisy", "unit", "large", "incr", "decr", "cl_hump", "cl_garland",
        "cl_step", "drift"]
RULE = ("SOO, StoSOO (k in {1,2,3,5,default}, delta in {default,0.01,0.5}), DOO (default delta and 4 user deltas) on "
        "all partitions, d=1..3; depth caps: the smallest cap holding the budget (half of the runs) and caps one or "
        "two levels tighter, run until the cells above the cap are used up (the real code then spins / returns None, "
        "which is C01's business and is ignored here); every make_children is judged against the tree and the ledger "
        "as they were at that moment, every hand-out against the ledger; non-trivial = >= 30 hand-outs and >= 5 "
        "expansions judged; in 30% of the runs the environment is hostile: rewards are chosen so that the evaluated "
        "cell's b-value ties bit for bit with another leaf (other evaluation count / other depth)")
ASSUMPTIONS = [
    "SOO restarts its sweep at depth 0 on every pull (ask/tell form): a sweep performs at most one expansion, so the 'monotone over the sweep' clause is checked but rarely has two expansions to compare",
    "DOO's default delta(h) is recomputed from the boxes of the cells listed at depth h (first coordinate, as documented)",
    "ties: any maximiser accepted; b-values compared to rel. 1e-9",
]
FLOOR = {"expansions_judged": {"quick": 20000, "thorough": 80000},
         "handouts_checked": {"quick": 60000, "thorough": 240000},
         "runs_where_the_cap_was_reached": {"quick": 80, "thorough": 320},
         "adversarial_exact_ties_made": {"quick": 6000, "thorough": 24000}}
WALL = {"quick": 1200, "thorough": 4 * 3600}
ALG = ["SOO", "StoSOO", "DOO", "DOO_delta", "SOO", "StoSOO"]


def gen_cases(rng, tier, count=None):
    count = count or (1200 if tier == "quick" else 10000)
    out = []
    for i in range(count):
        a = ALG[i % len(ALG)]
        c = gen.algo_case(rng, a, tier, fams=FAMS, early_stop=False,
                          n_choices=[100, 128, 150, 200, 300] if tier == "quick" else [100, 200, 300, 500, 1000])
        if a in ("SOO", "StoSOO") and rng.random() < 0.5:
            tight = max(1, c["params"]["h_max"] - int(rng.integers(1, 3)))
            c["params"]["h_max"] = tight
            c["tight_cap"] = True
        if rng.random() < 0.3:
            # hostile environment: first evaluations are given rewards that make b-values tie bit for bit with leaves
            # of another evaluation count (StoSOO) or another depth (DOO, SOO) - see SweepMon.choose_reward
            c["adversary"] = "tie"
        c["no_last"] = True
        out.append(gen.add_queries(rng, c, 0.35))
    return out


def nontrivial(ctx, res):
    o = res["obs"]
    return o.get("handouts_checked", 0) >= 30 and o.get("expansions_judged", 0) >= 5


def run_case(case):
    m = SweepMon()
    ctx = drive(case, [m], step_limit=300000, own=PROP)
    return result_of(ctx, [m], prefix=PROP, nontrivial=nontrivial)
