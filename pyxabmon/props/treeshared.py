"""shared by C04 / C05 / C06: workload of tree bandits (stand-alone and inside the wrappers) and the monitor set"""
import math

from .. import common as C
from .. import gen
from ..creditmon import CellCredit, TreeBanditMonitor, ZoomCredit
from ..driver import drive, result_of
from ..wrapmon import Recorder, WrapMon, base_kind, patched_pct, recording_learner

FAMS = [f for f in C.OPEN_FAMILIES + C.CLOSED_FAMILIES]


def tree_params(rng, algo):
    """documented ranges, biased towards settings whose thresholds bind and whose trees get deep"""
    for _ in range(100):
        nu = float(10 ** rng.uniform(-1.3, 1.3))
        rho = float(rng.uniform(0.15, 0.95))
        P = {"nu": nu, "rho": rho}
        if algo == "T_HOO":
            return P
        P["c"] = float(10 ** rng.uniform(-2.3, 0.5))
        P["delta"] = float(10 ** rng.uniform(-6, -0.05)) if rng.random() < 0.85 else float(rng.uniform(0.55, 0.99))
        if algo == "VHCT":
            P["bound"] = float(10 ** rng.uniform(-2, 1.5))
        if rng.random() < 0.08:
            # the corner where the published clamp min(1, c1*delta/t+) really binds: c1 = (rho/(3 nu))^(1/8) > 1 and
            # delta close to 1
            # (a third of them with nu down to 1e-6 and a small c: c1*delta > 2, 4, ... - the clamp then binds in the
            # refresh rounds t+ = 2, 4 as well; c keeps the thresholds reachable although nu is tiny)
            P["nu"] = float(10 ** rng.uniform(-2, -1))
            P["rho"] = float(rng.uniform(0.5, 0.95))
            P["delta"] = float(rng.uniform(0.85, 0.995))
            if rng.random() < 0.35:
                P["nu"] = float(10 ** rng.uniform(-6, -2))
                P["c"] = float(P["nu"] * 10 ** rng.uniform(-0.5, 1.0))
        # (c1*delta > 1/2 is allowed: there only the rounds with t+ = 1 (t+ <= 2 if c1*delta > 1) are not judged)
        return P
    raise RuntimeError("unreachable")


def tree_case(rng, tier, algo=None):
    algo = algo or str(rng.choice(C.TREE_BANDITS))
    nmax = 600 if tier == "quick" else 1500
    n = int(rng.choice([100, 130, 200, 260, 300, 520, nmax]))
    if algo == "T_HOO":
        n = min(n, 300 if tier == "quick" else 600)
    c = gen.algo_case(rng, algo, tier, n=n, T=n, fams=FAMS, dim=int(rng.integers(1, 4)))
    c["params"] = tree_params(rng, algo)
    if algo == "VHCT" and rng.random() < 0.3:
        # rewards with a large common offset: where a variance computed from raw moments cancels catastrophically
        c["reward"]["family"] = str(rng.choice(["large_off", "large", "huge_off", "huge_off"]))
    if algo == "T_HOO" and rng.random() < 0.25:
        # coarse discrete rewards with a wide spread: exact ties between sibling B-values
        c["reward"]["family"] = str(rng.choice(["intnormal", "quant5", "tied", "twoval", "nonpos3"]))
    if algo == "T_HOO" and rng.random() < 0.15:
        # resonant settings: nu*sqrt(n) is an exact power of 1/rho, so the published depth bound is exactly an integer
        # and '<=' vs '<' (or a re-arranged formula) decide differently
        b = int(rng.integers(1, 3))
        a = int(rng.integers(-3, 3))
        cexp = int(rng.integers(4, 6))  # n = 4^c in {256, 1024}
        c["params"] = {"nu": 2.0 ** a, "rho": 2.0 ** -b}
        c["n"] = c["T"] = n = min(4 ** cexp, 1024 if tier == "thorough" else 256)
        c["resonant"] = True
    elif algo == "T_HOO" and rng.random() < 0.1:
        # small smoothness constants: nu*sqrt(n) <= rho makes the published depth bound negative (the tree is the root
        # and its children for ever), nu*sqrt(n) slightly above rho gives bounds 0 and 1
        rho = float(rng.uniform(0.3, 0.95))
        c["params"] = {"nu": float(rho / n ** 0.5 * 10 ** rng.uniform(-1.5, 0.4)), "rho": rho}
    c["_cost"] = 3e-5 * n * n / 10 + 0.1
    return gen.add_midqueries(rng, gen.add_queries(rng, c, 0.35, dense_prob=0.2), 0.25)


def wrapper_case(rng, tier, algo=None):
    algo = algo or str(rng.choice(C.WRAPPERS))
    n = int(rng.choice([100, 150, 200, 300, 400] if tier == "quick" else [100, 200, 300, 500, 800]))
    c = gen.algo_case(rng, algo, tier, n=n, T=n if rng.random() < 0.8 else None, fams=FAMS,
                      dim=int(rng.integers(1, 3)))
    # rhomax where the wrappers have a budget per learner (H >= 1) most of the time
    c["params"] = {"nu": float(10 ** rng.uniform(-1, 1)), "rhomax": float(rng.uniform(0.05, 0.97))}
    if rng.random() < 0.12:
        # small numax (below 1/sqrt(n), where T-HOO's depth bound is <= 0) and large numax
        c["params"]["nu"] = float(10 ** rng.uniform(-4, -1)) if rng.random() < 0.7 else float(10 ** rng.uniform(1, 3))
    c["_cost"] = 1e-3 * n + 0.1
    return gen.add_midqueries(rng, gen.add_queries(rng, c, 0.5), 0.3)


def monitors_for(case, with_tree=True):
    """(monitors, learner_cls, build_cm)"""
    a = case["algo"]
    fam = C.family(a)
    if a in C.TREE_BANDITS:
        return [TreeBanditMonitor()], None, None
    if fam in ("POO", "GPO"):
        rec = Recorder()
        m = WrapMon(rec, with_tree=with_tree)
        if a in ("PCT", "VPCT"):
            return [m], None, patched_pct(case, rec)
        return [m], recording_learner(C.BASE_LEARNERS[base_kind(a)], rec), None
    if fam == "Zooming":
        return [ZoomCredit()], None, None
    if fam == "VROOM":
        from ..vroommon import VroomMon
        return [VroomMon()], None, None
    return [CellCredit()], None, None


def run(case, prefix, nontrivial):
    mons, lc, cm = monitors_for(case)
    try:
        ctx = drive(case, mons, learner_cls=lc, build_cm=cm, own=prefix)
    finally:
        for m in mons:
            getattr(m, "_remove", lambda: None)()
    return result_of(ctx, mons, prefix=prefix, nontrivial=nontrivial)


def long_case(rng, tier, algo):
    """long-horizon run of an anytime tree bandit: crosses the powers of two 2^14 (quick) .. 2^15 (thorough), where
    t+ = 2^ceil(log2 t) is computed from large counters; parameters keep the tree small (large thresholds)"""
    T = int(rng.integers(16500, 17200)) if tier == "quick" or rng.random() < 0.5 else int(rng.integers(32900, 33500))
    c = gen.algo_case(rng, algo, tier, n=T, T=T, fams=["noisy", "unit", "cl_hump", "cl_garland", "quant5"],
                      dim=int(rng.integers(1, 3)), part=str(rng.choice(["Bin", "K3", "RBin", "DimBin"])))
    c["params"] = {"nu": float(rng.uniform(0.5, 2.0)), "rho": float(rng.uniform(0.4, 0.7)),
                   "c": float(rng.uniform(0.08, 0.3)), "delta": float(10 ** rng.uniform(-3, -1))}
    if algo == "VHCT":
        c["params"]["bound"] = float(rng.uniform(0.5, 2.0))
    c["monitor_stride"] = 64
    c["long_horizon"] = True
    c.pop("midqueries", None)
    c["_cost"] = 60.0
    return c
