"""C17 - synthetic objectives never exceed their declared maximum and attain it (sampling oracle on the real f)"""
import collections
import copy
import math

import numpy as np

from .. import common as C
from PyXAB.synthetic_obj import Ackley, Cexample, DifficultFunc, DoubleSine, Garland, Himmelblau, Rastrigin

PROP = "C17"
RULE = ("for every objective (Garland, Perturbed_Garland, DoubleSine and Perturbed_DoubleSine over rho1,rho2 in "
        "[0.05,1] and tmax in [0,1] incl. the corners, DifficultFunc, Ackley(+normalised), Himmelblau(+normalised), "
        "Rastrigin(+normalised, d=1..4), Cexample): uniform samples of the documented domain plus 60 float "
        "neighbours on each side of every maximiser, discontinuity and domain end point and offsets 10^e, e=-320..-1; "
        "each sample: f finite and f(x) <= fmax (exact comparison); per object: fmax attained at the documented "
        "maximiser (1e-9; Himmelblau's irrational maxima 1e-6), Garland's maximum over a fine grid in "
        "[fmax-0.003, fmax], repeated / re-ordered evaluation equal, object attributes and the input list unchanged, "
        "wrong dimension -> ValueError; the N(0,1) offset of the perturbed variants is also injected with rare extreme draws "
        "(+-4.3, +-6, -37, 30); non-trivial = >= 1000 samples of one object")
ASSUMPTIONS = [
    "an upper bound over a continuum cannot be established by sampling: the check can only refute it (sampled floats, pressure on maximisers / discontinuities / end points)",
    "DoubleSine parameters rho1, rho2 in [0.05, 1] (smaller values make the exponents overflow, as the property states)",
    "Rastrigin accepts any dimension >= 1, so it has no wrong-dimension case",
]
FLOOR = {"samples_checked": {"quick": 1000000, "thorough": 150000000},
         "maximisers_checked": {"quick": 100, "thorough": 200},
         "purity_checks": {"quick": 60, "thorough": 120},
         "wrong_dimension_checks": {"quick": 100, "thorough": 200}}
WALL = {"quick": 1200, "thorough": 4 * 3600}
HIMMEL_MAX = [(3.0, 2.0), (-2.805118086952745, 3.131312518250573), (-3.779310253377747, -3.283185991286170),
              (3.584428340330492, -1.848126526964404)]
OBJS = ["Garland", "Perturbed_Garland", "DoubleSine", "Perturbed_DoubleSine", "DifficultFunc", "Ackley",
        "Ackley_Normalized", "Himmelblau", "Himmelblau_Normalized", "Rastrigin", "Rastrigin_Normalized", "Cexample"]


def make(case, rng):
    inj = case.get("normal_draw")
    if inj is None:
        return _make(case, rng)
    # the perturbed variants draw their offset from N(0,1) at construction: every real number is a legal outcome;
    # rare extreme draws are injected (the real generator is still advanced)
    orig = np.random.normal

    def normal(loc=0.0, scale=1.0, size=None):
        orig(loc, scale, size)
        return loc + scale * inj if size is None else np.full(size, loc + scale * inj)
    np.random.normal = normal
    try:
        return _make(case, rng)
    finally:
        np.random.normal = orig


def _make(case, rng):
    name = case["obj"]
    np.random.seed(case["np_seed"])
    if name == "Garland":
        return Garland.Garland(), [[0.0, 1.0]], [], 1
    if name == "Perturbed_Garland":
        return Garland.Perturbed_Garland(), [[0.0, 1.0]], [], 1
    if name in ("DoubleSine", "Perturbed_DoubleSine"):
        P = case["params"]
        cls = DoubleSine.DoubleSine if name == "DoubleSine" else DoubleSine.Perturbed_DoubleSine
        return cls(rho1=P["rho1"], rho2=P["rho2"], tmax=P["tmax"]), [[0.0, 1.0]], [[P["tmax"]]], 1
    if name == "DifficultFunc":
        return DifficultFunc.DifficultFunc(), [[0.0, 1.0]], [[0.5]], 1
    if name == "Ackley":
        return Ackley.Ackley(), [[-1.0, 1.0]] * 2, [[0.0, 0.0]], 2
    if name == "Ackley_Normalized":
        return Ackley.Ackley_Normalized(), [[-1.0, 1.0]] * 2, [[0.0, 0.0]], 2
    if name == "Himmelblau":
        return Himmelblau.Himmelblau(), [[-5.0, 5.0]] * 2, [list(m) for m in HIMMEL_MAX], 2
    if name == "Himmelblau_Normalized":
        return Himmelblau.Himmelblau_Normalized(), [[-5.0, 5.0]] * 2, [list(m) for m in HIMMEL_MAX], 2
    if name == "Rastrigin":
        d = case["params"]["d"]
        return Rastrigin.Rastrigin(), [[-1.0, 1.0]] * d, [[0.0] * d], d
    if name == "Rastrigin_Normalized":
        d = case["params"]["d"]
        return Rastrigin.Rastrigin_Normalized(), [[-1.0, 1.0]] * d, [[0.0] * d], d
    if name == "Cexample":
        return Cexample.Cexample(), [[0.0, 1 / math.e]], [[0.0]], 1
    raise KeyError(name)


def special_values(lo, hi, anchors):
    out = [lo, hi]
    for s in anchors:
        for direction in (hi, lo):
            v = s
            for _ in range(60):
                out.append(v)
                v = float(np.nextafter(v, direction))
        for e in range(-320, 0, 3):
            out += [s + 10.0 ** e, s - 10.0 ** e]
    return [float(v) for v in out if lo <= v <= hi]


def gen_cases(rng, tier, count=None):
    per = 30000 if tier == "quick" else 2000000
    reps = 10 if tier == "quick" else 20
    out = []
    for name in OBJS:
        for r in range(reps * (4 if "DoubleSine" in name else 1)):
            c = {"kind": "objective", "obj": name, "np_seed": int(rng.integers(1 << 30)), "seed": int(rng.integers(1 << 30)),
                 "nsamples": per // (4 if "DoubleSine" in name else 1), "params": {}, "_cost": per * 1e-5}
            if "DoubleSine" in name:
                if rng.random() < 0.3:
                    P = {"rho1": float(rng.choice([0.05, 1.0, 0.5])), "rho2": float(rng.choice([0.05, 1.0, 0.8])),
                         "tmax": float(rng.choice([0.0, 1.0, 0.5, 0.25]))}
                else:
                    P = {"rho1": float(rng.uniform(0.05, 1)), "rho2": float(rng.uniform(0.05, 1)),
                         "tmax": float(rng.uniform(0, 1))}
                c["params"] = P
            if "Rastrigin" in name:
                c["params"] = {"d": 1 + r % 4}
            if name.startswith("Perturbed") and r % 2 == 1:
                c["normal_draw"] = float(rng.choice([-4.3, 4.3, -6.0, 6.5, -37.0, 30.0, 0.0, -1e-9, 2.0]))
            out.append(c)
    if count:
        out = out[:count]
    return out


def run_case(case):
    viol, obs = [], collections.Counter()
    rng = np.random.default_rng([case["seed"], 17])
    obj, dom, maximisers, d = make(case, rng)
    name = case["obj"]
    fmax = obj.fmax

    def V(pred, **det):
        if len(viol) < 6:
            viol.append({"pred": "C17:" + pred, "round": None, "detail": C.jsonable(dict(det, obj=name, params=case["params"]))})
    state0 = copy.deepcopy(obj.__dict__)
    n = case["nsamples"]
    U = rng.random((n, d))
    pts = [[lo + (hi - lo) * float(u) for u, (lo, hi) in zip(row, dom)] for row in U]
    # pressure points: neighbours of maximisers / discontinuities / end points, per coordinate
    anchors_by_dim = [[m[j] for m in maximisers] for j in range(d)]
    if name == "DifficultFunc":
        # the threshold flips where the fractional part of ln|x-1/2| crosses 0 or 1/2
        for k in range(-12, 0):
            for frac in (0.0, 0.5):
                y = math.exp(k + frac)
                if y <= 0.5:
                    anchors_by_dim[0] += [0.5 + y, 0.5 - y]
    if name in ("Garland", "Perturbed_Garland"):
        anchors_by_dim[0] += [0.5, math.pi / 60 * 9, math.pi / 60 * 10]
    sp = [special_values(dom[j][0], dom[j][1], anchors_by_dim[j]) for j in range(d)]
    for j in range(d):
        for v in sp[j]:
            base = [m for m in (maximisers[0] if maximisers else [(lo + hi) / 2 for lo, hi in dom])]
            q = list(base)
            q[j] = v
            pts.append(q)
            if d > 1 and rng.random() < 0.3:
                q2 = [float(rng.choice(sp[i])) for i in range(d)]
                pts.append(q2)
    if d >= 2:
        # structured samples: coordinate axes through each maximiser, diagonals, the faces and corners of the domain
        ms = maximisers or [[(lo + hi) / 2 for lo, hi in dom]]
        for _ in range(min(4000, n // 5)):
            m = ms[int(rng.integers(len(ms)))]
            t = float(rng.random())
            kind = int(rng.integers(4))
            if kind == 0:      # a line through the maximiser parallel to an axis
                j = int(rng.integers(d))
                q = list(m)
                q[j] = dom[j][0] + (dom[j][1] - dom[j][0]) * t
            elif kind == 1:    # a diagonal of the box
                sg = [int(rng.integers(2)) for _ in range(d)]
                q = [lo + (hi - lo) * (t if g else 1 - t) for g, (lo, hi) in zip(sg, dom)]
            elif kind == 2:    # a face of the box
                q = [lo + (hi - lo) * float(rng.random()) for lo, hi in dom]
                j = int(rng.integers(d))
                q[j] = dom[j][int(rng.integers(2))]
            else:              # close to a maximiser, log-uniform distance
                r = 10.0 ** rng.uniform(-12, 0)
                q = [min(hi, max(lo, mj + r * float(rng.normal()))) for mj, (lo, hi) in zip(m, dom)]
            pts.append([float(v) for v in q])
        for corner in __import__("itertools").product(*[(lo, hi) for lo, hi in dom]):
            pts.append([float(v) for v in corner])
    worst = -math.inf
    for x in pts:
        keep = list(x)
        try:
            v = obj.f(x)
        except Exception as e:  # a point of the documented (closed) domain has no value at all
            V("evaluation_raises_on_a_point_of_the_documented_domain", x=keep, error=repr(e)[:200])
            return {"viol": viol, "obs": dict(obs), "nontrivial": obs.get("samples_checked", 0) >= 1000}
        obs["samples_checked"] += 1
        if x != keep:
            V("input_point_modified", before=keep, after=x)
            break
        try:
            fin = math.isfinite(v)
        except TypeError:
            fin = False
        if not fin:
            V("value_not_finite", x=keep, value=repr(v))
            break
        if v > fmax:
            V("value_exceeds_declared_maximum", x=keep, value=float(v), fmax=float(fmax), excess=float(v - fmax))
            break
        worst = max(worst, float(v))
    obs["max_regret_free_value_gap"] = 0
    # maximisers
    for m in maximisers:
        try:
            v = obj.f(list(m))
        except Exception as e:
            V("evaluation_raises_on_a_point_of_the_documented_domain", x=m, error=repr(e)[:200])
            continue
        obs["maximisers_checked"] += 1
        tol = 1e-6 if ("Himmelblau" in name and m != HIMMEL_MAX[0] and list(m) != [3.0, 2.0]) else 1e-9
        if abs(float(v) - float(fmax)) > tol:
            V("declared_maximum_not_attained_at_documented_maximiser", x=m, value=float(v), fmax=float(fmax))
    if name in ("Garland", "Perturbed_Garland"):
        xs = np.linspace(0.45, 0.55, 400001)
        g = float(np.max(xs * (1 - xs) * (4 - np.sqrt(np.abs(np.sin(60 * xs))))))
        spot = max(float(obj.f([float(x)])) for x in xs[::4000])
        off = getattr(obj, "perturb", 0.0)
        obs["maximisers_checked"] += 1
        if not (fmax - off - 0.003 <= g <= fmax - off):
            V("Garland_maximum_not_within_0.003_below_declared", grid_max=g, fmax=float(fmax))
        if spot > fmax:
            V("value_exceeds_declared_maximum", value=spot, fmax=float(fmax))
    # purity
    sub = [list(p) for p in pts[:200]]
    a = [float(obj.f(list(p))) for p in sub]
    b = [float(obj.f(list(p))) for p in reversed(sub)][::-1]
    obs["purity_checks"] += 1
    if a != b:
        V("evaluation_not_a_pure_function_of_x")
    # the same point object refilled in place (a grid scan reusing one list, a random search reusing one ndarray):
    # the value must be that of the coordinates currently held
    for mk in (list, np.array):
        buf = mk([float(v) for v in sub[0]])
        for q in sub[1:60]:
            for j, v in enumerate(q):
                buf[j] = v
            got, want = float(obj.f(buf)), float(obj.f([float(v) for v in q]))
            obs["buffer_reuse_evaluations"] += 1
            if got != want:
                V("value_depends_on_evaluation_history_not_only_on_x", x=q, got=got, want=want,
                  buffer=mk.__name__)
                break
    # the same instance, after everything above, against a fresh instance on a lattice of "nice" points (integers and
    # half-integers of the domain, the documented maximisers): a value must not depend on what was evaluated before
    if d <= 2:
        fresh, _, _, _ = make(case, rng)
        axes = []
        for lo, hi in dom:
            pts1 = sorted({float(v) / 2 for v in range(int(math.ceil(2 * lo)), int(math.floor(2 * hi)) + 1)} | {lo, hi})
            axes.append(pts1)
        lattice = [list(q) for q in __import__("itertools").product(*axes)] + [list(m) for m in maximisers]
        for q in lattice:
            got, want = float(obj.f(list(q))), float(fresh.f(list(q)))
            obs["lattice_points_compared_with_a_fresh_instance"] += 1
            if got != want and not (math.isnan(got) and math.isnan(want)):
                V("value_depends_on_evaluation_history_not_only_on_x", x=q, got=got, fresh_instance=want)
                break
        for q in reversed(lattice):  # and in the opposite order on the fresh instance
            if float(fresh.f(list(q))) != float(obj.f(list(q))):
                V("value_depends_on_evaluation_history_not_only_on_x", x=q, order="reversed")
                break
    # the same coordinates in other containers / number types (a tuple, an ndarray of floats, Python ints or an integer
    # ndarray where the coordinates are whole numbers): f is a function of the point, not of how it is spelt.  The
    # lattice of the domain (end points, integers, half-integers, zeros) and the maximisers are where a truthiness or
    # type test goes wrong
    nice = []
    for lo, hi in dom:
        nice.append(sorted({float(v) / 2 for v in range(int(math.ceil(2 * lo)), int(math.floor(2 * hi)) + 1)}
                           | {lo, hi} | ({0.0, -0.0} if lo <= 0.0 <= hi else set())))
    cont_pts = [list(q) for q in __import__("itertools").islice(__import__("itertools").product(*nice), 400)]
    cont_pts += [list(m) for m in maximisers] + [list(p) for p in pts[:20]]
    for q in cont_pts:
        want = float(obj.f([float(v) for v in q]))
        forms = [("tuple", tuple(float(v) for v in q)), ("ndarray", np.array([float(v) for v in q]))]
        if all(float(v).is_integer() for v in q):
            forms += [("list of int", [int(v) for v in q]), ("int ndarray", np.array([int(v) for v in q]))]
        for label, x in forms:
            obs["evaluations_in_other_containers"] += 1
            try:
                got = float(obj.f(x))
            except Exception as e:
                V("evaluation_raises_on_a_point_of_the_documented_domain", x=q, container=label, error=repr(e)[:200])
                break
            if got != want and not (math.isnan(got) and math.isnan(want)) and abs(got - want) > 1e-12 * max(1.0, abs(want)):
                V("value_depends_on_the_container_of_the_point", x=q, container=label, got=got, want=want)
                break
        else:
            continue
        break
    st1 = obj.__dict__
    if set(st1) != set(state0) or any(repr(st1[k]) != repr(state0[k]) for k in state0):
        V("object_attributes_changed_by_evaluation", before=state0, after=dict(st1))
    # wrong dimension
    if "Rastrigin" not in name:
        for wrong in ([], [0.1] * (d + 1), [0.1] * (d + 2)):
            obs["wrong_dimension_checks"] += 1
            try:
                obj.f(list(wrong))
                V("wrong_dimension_not_rejected", length=len(wrong))
            except ValueError:
                pass
            except Exception as e:
                V("wrong_dimension_raises_other_than_ValueError", length=len(wrong), error=type(e).__name__)
    else:
        obs["wrong_dimension_checks"] += 1  # counted: no wrong dimension exists for Rastrigin
    obs.pop("max_regret_free_value_gap", None)
    return {"viol": viol, "obs": dict(obs), "nontrivial": obs.get("samples_checked", 0) >= 1000}
