"""C15 - anytime algorithms ignore the time argument and tolerate recommendation queries (metamorphic)"""
import collections

import numpy as np

from .. import common as C
from .. import twin as TW

PROP = "C15"
LABEL_ALGOS = ["T_HOO", "HCT", "VHCT", "Zooming", "POO_T_HOO", "POO_HCT", "POO_VHCT", "GPO_T_HOO", "GPO_HCT", "GPO_VHCT",
               "PCT", "VPCT", "DOO", "DOO_delta", "SOO", "SequOOL", "VROOM"]
QUERY_ALGOS = ["T_HOO", "HCT", "VHCT", "Zooming", "POO_T_HOO", "POO_HCT", "POO_VHCT"]
RULE = ("base run with labels 1..T against runs that differ only in the time labels (t0+i for t0 in {0,17,10^6}, 2i, "
        "random increasing labels) for T_HOO, HCT, VHCT, Zooming, POO x3, GPO x3, PCT, VPCT, DOO, SOO, SequOOL, VROOM; "
        "base run against runs with 1-3 get_last_point() calls inserted at random rounds (once, twice or three times "
        "in a row) for T_HOO, HCT, VHCT, Zooming, POO x3; all partitions, d=1..3, c in [0.1,3] so that HCT/VHCT "
        "thresholds bind; points and recommendation must be bit-identical; non-trivial = >= 50 points compared")
ASSUMPTIONS = [
    "StoSOO and StroquOOL read the time argument by design and are not part of this property",
    "rewards are open-loop sequences so that both runs see the same rewards",
]
FLOOR = {"points_compared": {"quick": 120000, "thorough": 480000},
         "label_variants_run": {"quick": 700, "thorough": 2800},
         "query_variants_run": {"quick": 400, "thorough": 1600}}
WALL = {"quick": 1200, "thorough": 4 * 3600}
LABELS = [{"kind": "offset", "t0": 0}, {"kind": "offset", "t0": 17}, {"kind": "offset", "t0": 10 ** 6}, {"kind": "double"},
          {"kind": "random", "seed": 1}]


def gen_cases(rng, tier, count=None):
    count = count or (2400 if tier == "quick" else 20000)
    out = []
    for i in range(count):
        if i % 3 == 2:
            algo = QUERY_ALGOS[(i // 3) % len(QUERY_ALGOS)]
            c = TW.safe_case(rng, algo, tier)
            T = c["T"]
            qs = []
            if rng.random() < 0.3:
                qs = list(range(T))  # a query after every round
            for _ in range(int(rng.integers(1, 4))) if not qs else []:
                if rng.random() < 0.5:
                    # around the rounds where the internal counter reaches a power of two (refresh of delta~,
                    # Zooming phase ends 2, 6, 14, ...): the places where a query with a side effect would matter
                    k = int(rng.integers(1, max(2, T.bit_length())))
                    q = min(T - 1, max(0, 2 ** k - int(rng.integers(0, 5))))
                else:
                    q = int(rng.integers(0, T))
                qs += [q] * int(rng.integers(1, 4))
            c["variant"] = {"queries": sorted(qs)}
        else:
            algo = LABEL_ALGOS[(i // 3 + i) % len(LABEL_ALGOS)]
            c = TW.safe_case(rng, algo, tier)
            L = dict(LABELS[int(rng.integers(len(LABELS)))])
            if L["kind"] == "random":
                L["seed"] = int(rng.integers(1 << 30))
            c["variant"] = {"labels": L}
        out.append(c)
    for i in range(240 if tier == "quick" else 2400):
        # POO over the tree bandits on partitions that draw from NumPy's generator when they split (d >= 2, random
        # partitions), noisy rewards, the recommendation asked after every round: a query that lets the best learner
        # do (part of) its next step early shifts the generator's draws between the learners
        algo = ["POO_VHCT", "POO_VHCT", "POO_VHCT", "POO_VHCT", "POO_HCT", "POO_T_HOO"][i % 6]
        c = TW.safe_case(rng, algo, tier, part=str(rng.choice(["Bin", "K3", "RBin", "RK3", "K2"])),
                         dim=int(rng.integers(2, 4)), n_choices=[500, 600, 700],
                         fams=["noisy", "unit", "drift", "noisy", "large_off"])
        # many learners (rhomax near its default 0.9), smoothness near its default
        c["params"]["rhomax"] = float(rng.uniform(0.8, 0.95))
        c["params"]["nu"] = float(10 ** rng.uniform(-0.3, 0.3))
        c["T"] = c["n"]
        c["variant"] = {"queries": list(range(c["T"]))}
        c["_cost"] = 4.0
        out.append(c)
    return out


def run_case(case):
    viol, obs = [], collections.Counter()
    var = case["variant"]
    base = TW.run_points(case)
    if base["crash"]:
        return {"viol": [], "obs": {}, "nontrivial": False, "crash_other": "%s:%s" % (case["algo"], base["crash"][:60])}
    if "labels" in var:
        from ..driver import labels_of
        other = TW.run_points(case, labels=labels_of(dict(case, labels=var["labels"])))
        obs["label_variants_run"] += 1
        what = "C15:time_labels_change_the_run"
    else:
        qs = collections.Counter(var["queries"])
        other = run_with_queries(case, qs)
        obs["query_variants_run"] += 1
        obs["queries_inserted"] += sum(qs.values())
        what = "C15:recommendation_queries_change_the_run"
    obs["points_compared"] += len(base["points"]) + 1
    d = TW.first_diff(base["points"], other["points"])
    if other["crash"]:
        viol.append({"pred": what, "round": None, "detail": C.jsonable({"variant": var, "error": other["crash"]})})
    elif d:
        viol.append({"pred": what, "round": d[0], "detail": C.jsonable({"variant": var, "base": d[1], "other": d[2]})})
    elif base["last"] != other["last"]:
        viol.append({"pred": what + "_recommendation", "round": None,
                     "detail": C.jsonable({"variant": var, "base": base["last"], "other": other["last"]})})
    return {"viol": viol, "obs": dict(obs), "nontrivial": len(base["points"]) >= 50}


def run_with_queries(case, qs):
    """like twin.run_points but calls get_last_point qs[i] times after round i"""
    import copy
    P = C.plain_part_class(case["part"], case.get("part_binding"))
    out = {"points": [], "last": None, "crash": None}
    seq = C.open_rewards(case["reward"]["family"], case["reward"]["seed"], max(case["T"], 1))
    budget = C.StepBudget(5 * 10 ** 6)  # logical steps per API call (a hang ends the run whatever the machine load)
    try:
        np.random.seed(case["np_seed"])
        budget.on()
        budget.reset()
        algo = C.build(case, P)
        for i in range(case["T"]):
            budget.reset()
            p = algo.pull(i + 1)
            out["points"].append(list(p))
            budget.reset()
            algo.receive_reward(i + 1, float(seq[i]))
            for _ in range(qs.get(i, 0)):
                budget.reset()
                algo.get_last_point()
        budget.reset()
        q = algo.get_last_point()
        out["last"] = list(q)
    except C.StepBudgetExceeded:
        out["crash"] = "StepBudgetExceeded: more than 5e6 PyXAB function entries in one API call (hang)"
    except Exception as e:
        out["crash"] = "%s: %s" % (type(e).__name__, str(e)[:100])
    finally:
        budget.off()
    return out
