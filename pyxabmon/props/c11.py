"""C11 - Zooming keeps the domain covered by active arms and plays the max-index arm"""
from .. import common as C
from .. import gen
from ..driver import drive, result_of
from ..zoommon import ZoomMon

PROP = "C11"
FAMS = ["int3wide", "hugeneg", "negbern", "nonpos3", "cl_negdist", "bern", "quant5", "neg", "const", "zero", "tied", "twoval", "noisy", "unit", "large", "large_off", "drift", "cl_hump",
        "cl_garland", "cl_step", "cl_sine"]
RULE = ("Zooming on all 11 partition variants (midpoint splits Bin/DimBin/K2/K4 over-weighted: there the pulled arm "
        "lies exactly on the face between children), d=1..3, all box kinds, nu in [0.3,30], rho in [0.4,0.95] so that "
        "refinements occur, plus 6 (40) long runs of 4 100 - 8 400 (16 600) rounds that reach the phase ends 2046 / 4094 / 8190 (16382); "
        "after construction and after every round: every arm inside its cell, every leaf covered "
        "by an active cell; every pull: max index from ledger + reference phase schedule; every round: refinement "
        "decision and the arms of the children; non-trivial = >= 50 rounds and >= 2 refinements seen")
ASSUMPTIONS = [
    "phase i lasts 2^i rounds (reference doubling schedule recomputed by the monitor)",
    "radius/threshold within rel. 1e-9 of each other accept both decisions",
    "which child keeps the old arm when it lies on a shared face is not prescribed: exactly one child must hold it",
]
FLOOR = {"zoom_pulls_checked": {"quick": 100000, "thorough": 320000},
         "refinements_seen": {"quick": 3750, "thorough": 12000},
         "leaves_checked_for_coverage": {"quick": 750000, "thorough": 2400000}}
WALL = {"quick": 1200, "thorough": 4 * 3600}


def gen_cases(rng, tier, count=None):
    count = count or (1000 if tier == "quick" else 8000)
    out = []
    for i in range(6 if tier == "quick" else 40):
        # long runs: phase i lasts 2^i rounds, so only long horizons reach the later phase ends (2046 .. 16382)
        T = int(rng.integers(4100, 4300)) if i % 2 else int(rng.integers(8200, 8400))
        if tier == "thorough" and i % 4 == 0:
            T = int(rng.integers(16400, 16600))
        c = gen.algo_case(rng, "Zooming", tier, part=str(rng.choice(["Bin", "K3", "RBin", "DimBin"])), fams=FAMS,
                          early_stop=False, n=T, T=T, dim=int(rng.integers(1, 3)))
        c["params"] = {"nu": float(rng.uniform(0.5, 3.0)), "rho": float(rng.uniform(0.5, 0.8))}
        c["_cost"] = 30.0
        out.append(c)
    for i in range(count):
        part = str(rng.choice(C.MIDPOINT_PARTS)) if i % 2 == 0 else str(rng.choice(C.PART_NAMES))
        c = gen.algo_case(rng, "Zooming", tier, part=part, fams=FAMS, early_stop=False,
                          n_choices=[100, 200, 300] if tier == "quick" else [200, 400, 800])
        c["params"] = {"nu": float(10 ** rng.uniform(-0.5, 1.5)), "rho": float(rng.uniform(0.4, 0.95))}
        if rng.random() < 0.15:
            # resonant settings: 8*phase/(2+pulls) can equal (nu*rho^depth)^2 exactly, where '<=' and '<' differ
            c["params"] = {"nu": float(rng.choice([1.0, 2.0, 4.0, 0.5])), "rho": float(rng.choice([0.5, 0.25, 0.75]))}
            c["resonant"] = True
        T = c["T"]
        c["queries"] = sorted(int(x) for x in rng.integers(1, T, size=int(rng.integers(0, 3))))
        out.append(gen.add_midqueries(rng, c, 0.3))
    return out


def run_case(case):
    m = ZoomMon()
    ctx = drive(case, [m], own=PROP)
    return result_of(ctx, [m], prefix=PROP,
                     nontrivial=lambda ctx, res: ctx.round >= 50 and res["obs"].get("refinements_seen", 0) >= 2)
