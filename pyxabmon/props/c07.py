"""C07 - simple-regret algorithms recommend their best evaluated candidate"""
from .. import common as C
from .. import gen
from ..driver import drive, result_of
from ..searchmon import RecoMon
from . import treeshared as TS

PROP = "C07"
FAMS = ["negzero", "negzero", "int3wide", "hugeneg", "negbern", "nonpos3", "cl_negdist", "bern", "quant5", "neg", "const", "zero", "tied", "twoval", "neg", "incr", "decr", "best_first", "best_last", "noisy", "unit",
        "large", "cl_hump", "cl_step", "drift"]
RULE = ("DOO (default and user delta), SOO, SequOOL, StoSOO, StroquOOL, POO x3, GPO x3, PCT, VPCT on all partitions, "
        "d=1..3, T=n and T<n; reward families over-weight all-negative / all-equal / all-zero / tied values, strictly "
        "increasing or decreasing sequences and sequences whose unique maximum is the first or the last evaluation; "
        "get_last_point is also queried at random rounds; the returned point object is resolved to its cell and "
        "compared with the ledger; non-trivial = >= 20 rounds and >= 1 recommendation compared with >= 2 candidates")
ASSUMPTIONS = [
    "SequOOL: pulls of the root's centre after the schedule is exhausted are not search evaluations",
    "StoSOO: mean of an unevaluated deepest-level cell counts as 0 (as the property states)",
    "StroquOOL: validation rewards are the rewards recorded for a final candidate since its list was restarted; rewards dropped after the algorithm's end are evidence for nothing",
    "ties: any maximiser is accepted",
    "early stops where get_last_point raises (known findings of C01) are not judged here",
]
FLOOR = {"recommendations_checked": {"quick": 20000, "thorough": 160000},
         "candidates_compared": {"quick": 2000000, "thorough": 16000000}}
WALL = {"quick": 1200, "thorough": 4 * 3600}
# order-sensitive histories (the best evaluation is the latest / the first / a recent one at every stopping time): a
# quarter of the simple-algorithm runs - a candidate list that loses its newest or oldest entry shows only there
ORDER = ["incr", "incr", "decr", "best_first", "best_last", "records", "records"]
SIMPLE = ["DOO", "DOO_delta", "SOO", "SequOOL", "StoSOO", "StroquOOL"]


def gen_cases(rng, tier, count=None):
    count = count or (1000 if tier == "quick" else 12000)
    out = []
    for i in range(count):
        if i % 4 == 3:
            c = TS.wrapper_case(rng, tier)
            c["reward"]["family"] = str(rng.choice(FAMS))
        else:
            a = SIMPLE[i % len(SIMPLE)]
            u = rng.random()
            fams = ORDER if u < 0.25 else FAMS
            if a in ("DOO", "DOO_delta", "SOO") and 0.25 <= u < 0.5:
                # the best value is an exact zero - the default reward DOO / SOO give a cell before it is evaluated
                fams = ["negzero", "negzero", "nonpos3"]
            c = gen.algo_case(rng, a, tier, fams=fams)
        if c["algo"] == "StoSOO" and rng.random() < 0.4:
            # a cap one or two levels too tight: once the cells above it are used up pull returns None (C01's
            # business); the recommendation asked then must still follow the deepest-level rule
            c["params"]["h_max"] = max(1, c["params"]["h_max"] - int(rng.integers(1, 3)))
            c["last_after_none"] = True
            c["T"] = c["n"]
        T = c["T"]
        if T >= 4:
            c["queries"] = sorted(int(x) for x in rng.integers(1, T, size=int(rng.integers(0, 4))))
            if c["algo"] in ("DOO", "DOO_delta", "SOO", "SequOOL", "StoSOO") and T <= 700 and rng.random() < 0.5:
                # cheap recommendations: ask after every round (a wrong answer may exist only in the one round in
                # which an expansion has left unevaluated cells behind); the other half keeps sparse queries
                c["queries"] = list(range(T))
            if c["algo"] in ("DOO", "DOO_delta", "SOO", "StoSOO") and rng.random() < 0.3:
                # recommendation queries while an evaluation is pending (a progress log): their answers are not
                # judged, the recommendations asked later are
                c["midqueries"] = list(range(T)) if rng.random() < 0.5 else sorted(
                    int(x) for x in rng.integers(0, T, size=int(rng.integers(1, 12))))
            if a_is_stroquool(c):
                # the validation phase is short and early (rounds ~45-62 of n = 1000): ask after every round; queries
                # before a candidate exists raise (known finding of C01) and are skipped.  Every second run asks at
                # most three times instead: a query makes the algorithm recompute lazily cached means, so asking after
                # every round would hide a stale cache from the final recommendation (seeded change C07b)
                if rng.random() < 0.5:
                    c["queries"] = list(range(min(T, 400)))
                c["tolerate_query_errors"] = True
            if C.family(c["algo"]) in ("POO", "GPO") and rng.random() < 0.5:
                # the wrappers' recommendation after every round (a leader cached at the wrong moment is stale for one
                # between-round instant only)
                c["queries"] = list(range(T))
            if C.family(c["algo"]) == "GPO":
                H = C.gpo_N_H(c["n"], c["params"]["rhomax"])[1]
                c["queries"] = [q for q in c["queries"] if q >= H + 1]
        out.append(c)
    # StroquOOL once more: budgets from 200 on (two or more candidate slots), noisy rewards (repeated evaluations of a
    # cell differ), the whole budget played; every second run asks after every round, the others at most three times
    for i in range(120 if tier == "quick" else 1500):
        c = gen.algo_case(rng, "StroquOOL", tier, n=int(rng.integers(200, 1001)), early_stop=False,
                          fams=["noisy", "unit", "drift", "bern", "quant5", "intnormal", "large_off", "cl_garland"])
        T = c["T"]
        c["queries"] = list(range(min(T, 400))) if i % 2 == 0 else sorted(
            int(x) for x in rng.integers(1, T, size=int(rng.integers(0, 4))))
        c["tolerate_query_errors"] = True
        out.append(c)
    for i in range(120 if tier == "quick" else 1500):
        if i % 2 == 0:
            # StoSOO on nearly flat / far-offset rewards (means that differ in their last digits only), the
            # recommendation asked after every round
            c = gen.algo_case(rng, "StoSOO", tier, fams=["nearflat", "nearflat", "large_off", "huge_off"], early_stop=False)
            c["queries"] = list(range(c["T"]))
        else:
            # SequOOL on two-children partitions with the whole budget played (the schedule is exhausted inside the
            # budget and the root keeps collecting rewards) and late rewards that beat every search reward
            c = gen.algo_case(rng, "SequOOL", tier, fams=["incr", "best_last", "records", "drift"], early_stop=False,
                              part=str(rng.choice(["Bin", "K2", "RBin", "RK2"])))
            c["queries"] = list(range(c["T"])) if i % 4 == 1 else []
        out.append(c)
    return out


def a_is_stroquool(c):
    return c["algo"] == "StroquOOL"


def nontrivial(ctx, res):
    o = res["obs"]
    return ctx.round >= 20 and o.get("recommendations_checked", 0) >= 1 and (
        o.get("candidates_compared", 0) >= 2 or o.get("poo_scores_compared", 0) + o.get("gpo_scores_compared", 0) >= 2)


def run_case(case):
    fam = C.family(case["algo"])
    if fam in ("POO", "GPO"):
        mons, lc, cm = TS.monitors_for(case, with_tree=False)
    else:
        mons, lc, cm = [RecoMon()], None, None
    ctx = drive(case, mons, learner_cls=lc, build_cm=cm, own=PROP)
    return result_of(ctx, mons, prefix=PROP, nontrivial=nontrivial)
