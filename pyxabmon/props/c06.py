"""C06 - tree bandits grow only at the pulled leaf, under the published rule (see treemon.py)"""
from .. import common as C
from . import treeshared as TS

PROP = "C06"
RULE = ("same executions as C05 (tree bandits stand-alone and inside the wrappers); every make_children call of the "
        "learner's partition is an event (phase, cell, was-leaf); after every round: at most one expansion, none "
        "outside receive_reward, under the pulled cell, which was a leaf; new cells fresh; expansion decision == the "
        "published rule recomputed from the ledger (T-HOO depth bound; HCT/VHCT leaf and T >= ceil(tau)); "
        "non-trivial = >= 50 rounds, >= 5 expansions judged, tree depth >= 2")
ASSUMPTIONS = [
    "HCT/VHCT expansion decisions are judged in the rounds whose t+ satisfies c1*delta/t+ <= 1/2 (the code's clamp min(1/2,.) and the published min(1,.) coincide there); c1*delta > 1/2 only excludes the rounds with t+ = 1",
    "two admissible conventions for t+ (round counter before/after increment) and, for VHCT, for the variance in tau (before/after the current reward); the decision is accepted if it matches any of them",
    "threshold comparisons within rel. 1e-9 of the boundary accept both outcomes",
    "the expansion of the root in the constructor is part of the published initialisation, not a round",
]
FLOOR = {"rounds_growth_checked": {"quick": 20000, "thorough": 160000},
         "expansions_judged": {"quick": 3000, "thorough": 24000}}
WALL = {"quick": 1500, "thorough": 5 * 3600}
gen_cases = None


def gen_cases(rng, tier, count=None):
    count = count or (220 if tier == "quick" else 4000)
    out = []
    for i in range(4 if tier == "quick" else 48):
        out.append(TS.long_case(rng, tier, ["HCT", "VHCT"][i % 2]))
    for i in range(count):
        if i % 5 == 4:
            out.append(TS.wrapper_case(rng, tier))
        else:
            out.append(TS.tree_case(rng, tier, C.TREE_BANDITS[i % 3]))
    return out


def nontrivial(ctx, res):
    o = res["obs"]
    return ctx.round >= 50 and o.get("max_tree_depth", 0) >= 2 and o.get("expansions_judged", 0) >= 5


def run_case(case):
    return TS.run(case, PROP, nontrivial)
