"""C05 - T-HOO, HCT and VHCT pull the cell chosen by the published optimistic index (see treemon.py)"""
from .. import common as C
from . import treeshared as TS

PROP = "C05"
RULE = ("tree bandits T_HOO/HCT/VHCT stand-alone (80%) and as base learners inside POO/GPO/PCT/VPCT (20%), all "
        "partitions, d=1..3, n up to 600 (quick) / 1500 (thorough), plus 4 (48) long-horizon HCT/VHCT runs of 16 500 - 33 500 "
        "rounds that cross 2^14 / 2^15 (whole-tree walks around powers of two and every 64th round, pulled-cell and "
        "expansion checks every round), (nu, rho, c, delta, bound) log-uniform in the "
        "documented ranges 19 reward families incl. ties and 1e6+noise; after EVERY round "
        "every U is compared with the published formula recomputed from the ledger, every non-root B with the "
        "recursion, and the pulled cell's root path with the greedy/threshold rule; non-trivial = >= 50 rounds, tree "
        "depth >= 2 and >= 200 U-values compared")
ASSUMPTIONS = [
    "HCT/VHCT thresholds are judged in the rounds whose t+ satisfies c1*delta/t+ <= 1/2, where the code's clamp min(1/2,.) and the published min(1,.) coincide (c1*delta > 1/2 only excludes t+ = 1, i.e. the first round); U-values are judged always",
    "the root's B-value is never refreshed nor read by the code and is exempt; the root is exempt from the threshold rule (tau_0 = 0)",
    "two admissible conventions for t+ of the pulled cell's refresh (round counter before/after its increment)",
    "threshold comparisons within rel. 1e-9 of an integer boundary accept both outcomes; arg-max ties within rel. 1e-9",
    "VHCT's width is the published Bernstein form sqrt(2 c^2 V ln(1/dt)/T) + 3 b c^2 ln(1/dt)/T with V floored at 1e-3",
]
FLOOR = {"u_values_compared": {"quick": 200000, "thorough": 1600000},
         "b_values_compared": {"quick": 100000, "thorough": 800000},
         "paths_checked": {"quick": 20000, "thorough": 160000}}
WALL = {"quick": 1500, "thorough": 5 * 3600}


def gen_cases(rng, tier, count=None):
    count = count or (220 if tier == "quick" else 4000)
    out = []
    for i in range(4 if tier == "quick" else 48):
        out.append(TS.long_case(rng, tier, ["HCT", "VHCT"][i % 2]))
    for i in range(120 if tier == "quick" else 2400):
        # short T-HOO runs with coarse, widely spread discrete rewards and large nu: exact ties between sibling
        # B-values, B determined by the children rather than by the cell's own U
        c = TS.tree_case(rng, tier, "T_HOO")
        c["n"] = c["T"] = int(rng.integers(100, 160))
        c["params"] = {"nu": float(10 ** rng.uniform(0, 0.9)), "rho": float(rng.uniform(0.3, 0.8))}
        c["reward"]["family"] = str(rng.choice(["int3wide", "int3wide", "int3wide", "intwide", "intnormal", "quant5"]))
        if rng.random() < 0.6:
            c["part"] = str(rng.choice(["Bin", "RBin", "K2", "RK2"]))
        c.pop("resonant", None)
        c["_cost"] = 0.3
        out.append(c)
    for i in range(count):
        if i % 5 == 4:
            out.append(TS.wrapper_case(rng, tier))
        else:
            out.append(TS.tree_case(rng, tier, C.TREE_BANDITS[i % 3]))
    return out


def nontrivial(ctx, res):
    o = res["obs"]
    return ctx.round >= 50 and o.get("max_tree_depth", 0) >= 2 and o.get("u_values_compared", 0) >= 200


def run_case(case):
    return TS.run(case, PROP, nontrivial)
