"""C10 - POO routes each round to one base learner and scores learners by true means"""
from .. import common as C
from ..driver import drive, result_of
from ..wrapmon import Recorder, WrapMon, base_kind, recording_learner, stub_learner
from . import treeshared as TS

PROP = "C10"
RULE = ("(a) stub learner (O(1) per call, named like the real class): horizons {100,333,1000,3000} and, for rhomax >= 0.67, {4000, 8000} "
        "(thorough: all of these + 10000, 20000 on the whole grid) x a 63-point rhomax grid in (0.02,0.995], reward = 3 sin t so every mis-routing moves a mean; "
        "(b) POO x {T_HOO,HCT,VHCT} with the real learners on all partitions, random rewards, get_last_point queried "
        "at random rounds; per round: exactly one base pull and one base receive_reward on the same learner with the "
        "same reward, learner list only grows, new learners have nu=numax and a fresh grid rho in (0,rhomax), "
        "V_reward/Times == ledger mean/count of every learner; non-trivial = >= 30 rounds and >= 30 score comparisons")
ASSUMPTIONS = [
    "after the repair of POO's start condition (fix: f16bd14) every rhomax in (0,1) starts; small rhomax are part of the workload",
    "grid membership: rho == rhomax^(2N/(2i+1)) for some N in {2,4,..,65536}, 0 <= i < N, to rel. 1e-12",
    "rewards whose partial sums are finite in double precision (|r| <= 1e300 / n): beyond that no floating-point form of the running mean equals 'the arithmetic mean of the rewards received' (seeded change C10m lives there and is not judged)",
]
FLOOR = {"poo_rounds_checked": {"quick": 120000, "thorough": 960000},
         "poo_scores_compared": {"quick": 500000, "thorough": 4000000},
         "learners_created": {"quick": 800, "thorough": 6400},
         "recommendations_checked": {"quick": 400, "thorough": 3200}}
WALL = {"quick": 1200, "thorough": 5 * 3600}


def gen_cases(rng, tier, count=None):
    out = []
    hs = [100, 333, 1000, 3000] + ([10000, 20000] if tier == "thorough" else [])
    g = [0.02 + 0.96 * j / 59 for j in range(60)] + [0.985, 0.99, 0.995]
    for n in hs + [4000, 8000]:
        for rm in (g if n <= 3000 or tier == "thorough" else g[50:63:3] + g[40:50:4]):
            for kind in (["HCT"] if tier == "quick" else ["HCT", "T_HOO", "VHCT"]):
                out.append({"algo": "POO_" + kind, "stub": True, "part": "Bin", "box": [[-1.0, 2.0]], "box_kind": "shifted",
                            "n": n, "T": n, "params": {"nu": 2.0, "rhomax": rm}, "np_seed": 0,
                            "reward": {"family": "sin3", "seed": 0}, "_cost": 5e-5 * n,
                            # (the recommendation after EVERY round for the shorter horizons: a leader cached at the
                            # wrong moment is stale for a single between-round instant)
                            "queries": list(range(n)) if n <= 1000 else [n // 3, n // 2],
                            "midqueries": [n // 4, n // 2 + 1, n - 2]})
    nreal = 200 if tier == "quick" else 3000
    if count:
        out = out[:count]
        nreal = max(1, count // 4)
    po = [a for a in C.WRAPPERS if C.family(a) == "POO"]
    for i in range(nreal):
        c = TS.wrapper_case(rng, tier, po[i % len(po)])
        c["T"] = c["n"]
        c["queries"] = sorted(int(x) for x in rng.integers(1, c["T"], size=int(rng.integers(0, 3))))
        if i % 2 == 0:
            c["queries"] = list(range(c["T"]))
        out.append(c)  # (mid-round queries are added by wrapper_case)
    return out


def nontrivial(ctx, res):
    o = res["obs"]
    return ctx.round >= 30 and o.get("poo_scores_compared", 0) >= 30


def run_case(case):
    rec = Recorder()
    m = WrapMon(rec, with_tree=False)
    base = stub_learner(base_kind(case["algo"])) if case.get("stub") else C.BASE_LEARNERS[base_kind(case["algo"])]
    ctx = drive(case, [m], learner_cls=recording_learner(base, rec), use_budget=not case.get("stub"), own=PROP)
    res = result_of(ctx, [m], prefix=PROP, nontrivial=nontrivial)
    if case.get("stub"):
        res["obs"]["stub_schedules_enumerated"] = 1
    return res
