"""C04 monitors for the algorithms that credit the pulled cell only (SOO, DOO, StoSOO, SequOOL, StroquOOL), for
Zooming's arms, and the Monitor adaptor of TreeMon for stand-alone T_HOO/HCT/VHCT."""
import math

from . import common as C
from .driver import Monitor
from .treemon import TreeMon, tree_params

close = C.close


class TreeBanditMonitor(Monitor):
    def __init__(self):
        super().__init__()
        self.tm = None

    def after_mc(self, ev):
        if self.tm:
            self.tm.on_mc(ev)

    def start(self, ctx):
        c = ctx.case
        self.tm = TreeMon(c["algo"], ctx.algo, tree_params(c["algo"], c["params"], c["n"]), self, ctx.hub)
        self.tm.stride = int(c.get("monitor_stride", 1))
        self.tm.last_round = c["T"]

    def on_pull(self, ctx, t, p):
        self.tm.on_pull(p)

    def on_reward(self, ctx, t, r):
        self.tm.on_reward(r)

    def on_query(self, ctx, p):
        self.tm.on_pull(p, is_query=True)

    def on_last(self, ctx, p):
        self.tm.on_pull(p, is_query=True)

    def finish(self, ctx):
        if self.tm:
            self.tm.finish()


class CellCredit(Monitor):
    """per-cell ledger: the pulled cell is resolved by the identity of the returned point object; after every
    receive_reward every cell reachable from the root must hold exactly the rewards of its own pulls"""

    def __init__(self):
        super().__init__()
        self.hist = {}
        self.dropped = 0
        self.restart_round = None

    def start(self, ctx):
        self.algo = ctx.case["algo"]
        self.fam = C.family(self.algo)
        self.part = ctx.algo.partition

    def on_pull(self, ctx, t, p):
        if not isinstance(p, (list, tuple)):
            self.cell = None  # no point handed out (cap used up): totality is C01's business, the run ends here
            self.pre_state = None
            return
        self.cell = ctx.hub.owner(p)
        if self.cell is None:
            self.v("C04:pulled_point_is_no_cell_representative", point=repr(p)[:80])
        self.pre_state = self._state(self.cell) if self.cell is not None else None

    def _state(self, x):
        f = self.fam
        if f in ("SOO", "DOO"):
            return (bool(x.visited), x.get_reward())
        if f == "StoSOO":
            return (x.get_visited_times(), list(x.rewards))
        if f == "SequOOL":
            return (list(x.rewards),)
        if f == "StroquOOL":
            return (x.get_visited_times(), list(x.rewards))
        raise KeyError(f)

    def on_reward(self, ctx, t, r):
        x = self.cell
        if x is None:
            return
        i = ctx.round - 1
        post = self._state(x)
        if self.fam == "StroquOOL" and post == self.pre_state:
            # the reward left no trace in the pulled cell: legitimate only nowhere; known finding once `end` is set
            self.dropped += 1
            if self.dropped == 1:
                self.v("C04:reward_recorded_nowhere", after_end=bool(getattr(ctx.algo, "end", False)), round=i)
        else:
            self.hist.setdefault(id(x), []).append((i, r))
        nodes = C.reachable(self.part)
        tot = 0
        for y in nodes:
            h = self.hist.get(id(y), [])
            vals = [v for _, v in h]
            self.obs["cells_compared"] += 1
            f = self.fam
            if f in ("SOO", "DOO"):
                default = -math.inf if f == "SOO" else 0
                want = vals[-1] if vals else default
                tot += 1 if y.visited else 0
                if y.get_reward() != want or bool(y.visited) != bool(vals):
                    self.v("C04:cell_reward_differs_from_history", depth=y.get_depth(), index=y.get_index(),
                           reward=y.get_reward(), want=want, visited=bool(y.visited), pulls=len(vals))
                    break
            elif f == "StoSOO":
                tot += y.get_visited_times()
                if y.get_visited_times() != len(vals) or list(y.rewards) != vals:
                    self.v("C04:cell_rewards_differ_from_history", depth=y.get_depth(), index=y.get_index(),
                           count=y.get_visited_times(), pulls=len(vals))
                    break
                if vals and not close(y.get_mean_reward(), math.fsum(vals) / len(vals), 1e-9,
                                      1e-9 * max(abs(v) for v in vals)):
                    self.v("C04:mean_differs_from_history", depth=y.get_depth(), mean=y.get_mean_reward())
                    break
            elif f == "SequOOL":
                tot += len(y.rewards)
                if list(y.rewards) != vals:
                    self.v("C04:cell_rewards_differ_from_history", depth=y.get_depth(), index=y.get_index(),
                           have=len(y.rewards), pulls=len(vals))
                    break
            elif f == "StroquOOL":
                tot += y.get_visited_times()
                if y.get_visited_times() != len(vals):
                    self.v("C04:visit_count_differs_from_history", depth=y.get_depth(), index=y.get_index(),
                           count=y.get_visited_times(), pulls=len(vals))
                    break
                have = list(y.rewards)
                if have != vals:
                    # documented exception: the final candidates restart their list when validation begins; the
                    # list must then be exactly the cell's rewards since one common round
                    k = len(vals) - len(have)
                    if k < 0 or vals[k:] != have:
                        self.v("C04:cell_rewards_are_not_a_suffix_of_history", depth=y.get_depth(),
                               have=len(have), pulls=len(vals))
                        break
                    R = h[k][0] if k < len(h) else i + 1  # first round kept
                    last_dropped = h[k - 1][0]
                    if self.restart_round is None:
                        self.restart_round = (last_dropped, R)
                    lo, hi = self.restart_round
                    lo, hi = max(lo, last_dropped), min(hi, R)
                    self.restart_round = (lo, hi)
                    self.obs["restarted_lists_seen"] += 1
                    if lo >= hi:
                        self.v("C04:reward_lists_restarted_at_different_rounds", depth=y.get_depth())
                        break
        if tot != ctx.round - self.dropped:
            self.v("C04:counts_do_not_sum_to_rounds", total=tot, rounds=ctx.round, dropped_after_end=self.dropped)

    def finish(self, ctx):
        if self.dropped:
            self.obs["rewards_dropped_after_termination"] += self.dropped


class ZoomCredit(Monitor):
    """Zooming: the arm is identified by the identity of the returned point list"""

    def __init__(self):
        super().__init__()
        self.hist = {}

    def on_pull(self, ctx, t, p):
        self.pid = id(p)
        self.p = p

    def on_reward(self, ctx, t, r):
        a = ctx.algo
        self.hist.setdefault(self.pid, [self.p, []])[1].append(r)
        arms = list(a.active_points.keys())
        byp = {}
        for arm in arms:
            byp.setdefault(id(arm.get_point()), []).append(arm)
        if any(len(v) > 1 for v in byp.values()):
            # two arms sharing one point object would make the ledger ambiguous
            self.obs["ambiguous_arm_identity"] += 1
            return
        tot = 0
        for arm in arms:
            h = self.hist.get(id(arm.get_point()), [None, []])[1]
            self.obs["arms_compared"] += 1
            tot += a.pulled_times.get(arm, 0)
            if a.pulled_times.get(arm) != len(h):
                self.v("C04:arm_pull_count_differs_from_history", count=a.pulled_times.get(arm), pulls=len(h))
                break
            m = math.fsum(h) / len(h) if h else 0
            if not close(float(a.average_rewards.get(arm)), m, 1e-9, 1e-9 * max([1.0] + [abs(v) for v in h])):
                self.v("C04:arm_mean_differs_from_history", mean=float(a.average_rewards.get(arm)), ref=m)
                break
        if tot != ctx.round:
            self.v("C04:counts_do_not_sum_to_rounds", total=tot, rounds=ctx.round)
        if set(a.pulled_times.keys()) != set(arms) or set(a.average_rewards.keys()) != set(arms):
            self.v("C04:arm_tables_out_of_step")
