"""worker process: runs the cases of one shard through the property's run_case and writes one JSON line per case"""
import json
import sys
import time
import traceback
import warnings

warnings.simplefilter("ignore")


def main():
    prop, fin, fout = sys.argv[1:4]
    from . import common as C
    from .runner import load_prop
    import numpy as np
    np.seterr(all="ignore")
    M = load_prop(prop)
    items = json.load(open(fin))
    with open(fout, "w") as out:
        for i, case in items:
            t0 = time.time()
            try:
                r = M.run_case(case)
            except BaseException:  # harness bug: never a verdict on PyXAB
                r = {"harness": traceback.format_exc()[-1500:]}
            r["i"] = i
            r["_secs"] = round(time.time() - t0, 2)
            out.write(json.dumps(C.jsonable(r)) + "\n")
            out.flush()


if __name__ == "__main__":
    main()
