"""worker process: runs the cases of one shard through the property's run_case and writes one JSON line per case"""
import json
import os
import sys
import time
import traceback
import warnings

warnings.simplefilter("ignore")


def start_linecov(pkg):
    """which source lines of PyXAB did this shard's executions reach?  sys.monitoring LINE events, each location
    reported once (DISABLE after the first hit), so the cost is negligible"""
    mon = getattr(sys, "monitoring", None)
    hits = set()
    if mon is None:
        return hits
    try:
        tid = mon.COVERAGE_ID
        mon.use_tool_id(tid, "pyxabmon-lines")
    except Exception:
        return hits
    n = len(pkg) + 1

    def cb(code, line):
        f = code.co_filename
        if f.startswith(pkg):
            hits.add((f[n:], line))
        return mon.DISABLE

    mon.register_callback(tid, mon.events.LINE, cb)
    ev = mon.events.LINE
    if os.environ.get("PYXABMON_BRANCHCOV"):
        # diagnostic (tools/branchcov.sh): which directions of which conditional jumps were taken; no DISABLE here
        # (it would silence both directions of the instruction), so this costs a callback per executed branch
        lines = {}

        def br(code, src, dst):
            f = code.co_filename
            if not f.startswith(pkg):
                return mon.DISABLE
            m = lines.get(code)
            if m is None:
                m = lines[code] = {s_: l for s_, e_, l in code.co_lines() if l is not None for s_ in range(s_, e_, 2)}
            hits.add((f[n:], -m.get(src, 0), m.get(dst, 0)))

        mon.register_callback(tid, mon.events.BRANCH, br)
        ev |= mon.events.BRANCH
    mon.set_events(tid, ev)
    return hits


def main():
    prop, fin, fout = sys.argv[1:4]
    import os
    hits = start_linecov(os.path.join(os.path.realpath(os.environ.get("PYXAB_REPO", "/repo")), "PyXAB"))
    from . import common as C
    from .runner import load_prop
    import numpy as np
    np.seterr(all="ignore")
    M = load_prop(prop)
    items = json.load(open(fin))
    with open(fout, "w") as out:
        for i, case in items:
            t0 = time.time()
            try:
                r = M.run_case(case)
            except BaseException:  # harness bug: never a verdict on PyXAB
                r = {"harness": traceback.format_exc()[-1500:]}
            r["i"] = i
            r["_secs"] = round(time.time() - t0, 2)
            out.write(json.dumps(C.jsonable(r)) + "\n")
            out.flush()
            with open(fout + ".cov", "w") as f:
                json.dump(sorted(hits), f)


if __name__ == "__main__":
    main()
