"""Generic check runner: generate cases, shard them over worker processes (one subprocess per shard, never a
multiprocessing.Pool), aggregate what the monitors observed, match violations against known_findings.json by
mechanism, write evidence/<id>.json and print the verdict.

exit 0  held on everything explored (and every deciding oracle was evaluated at least its floor)
exit 1  VIOLATION property=<id> replay=<path>   (an unlisted violation)
exit 3  INCONCLUSIVE property=<id> ...          (watchdog fired / oracle floor not reached / harness error)
"""
import argparse
import collections
import importlib
import json
import os
import shutil
import subprocess
import sys
import tempfile
import time

from . import common as C
from . import known as K

BRANCHCOV = set()  # (file, -source line, destination line) of taken conditional jumps (diagnostic mode only)
LINECOV = set()  # (file relative to the package, line) reached by any worker of this run


def executable_lines(path):
    """line numbers inside *function bodies* of a source file (from the compiled code objects, as sys.monitoring
    sees them); module- and class-level lines run at import and say nothing about the workload"""
    try:
        top = compile(open(path).read(), path, "exec")
    except Exception:
        return set()
    out, todo = set(), [top]
    while todo:
        co = todo.pop()
        if co.co_flags & 0x1:  # CO_OPTIMIZED: a function body
            out.update(l for _, _, l in co.co_lines() if l is not None and l > co.co_firstlineno)
        todo += [k for k in co.co_consts if hasattr(k, "co_lines")]
    return out


def linecov_summary(files_prefixes=("algos", "partition", "synthetic_obj")):
    per = {}
    missing = {}
    for sub in files_prefixes:
        d = os.path.join(C.PKG, sub)
        for fn in sorted(os.listdir(d)) if os.path.isdir(d) else []:
            if not fn.endswith(".py") or fn == "__init__.py":
                continue
            rel = os.path.join(sub, fn)
            ex = executable_lines(os.path.join(C.PKG, rel))
            hit = {l for f, l in LINECOV if f == rel} & ex
            if hit:
                per[rel] = "%d/%d" % (len(hit), len(ex))
                missing[rel] = sorted(ex - hit)
    return per, missing


NPROC = int(os.environ.get("VERIF_NPROC", str(min(16, os.cpu_count() or 4))))


def load_prop(prop):
    return importlib.import_module("pyxabmon.props.%s" % prop.lower())


def run_sharded(prop, cases, wall_per_shard, wall_scale=1):
    """returns (results by case index, unfinished indices, stderr tails)"""
    if not cases:
        return {}, [], []
    n = min(NPROC, len(cases))
    tmp = tempfile.mkdtemp(prefix="pyxabmon-%s-" % prop)
    procs = []
    try:
        # longest-first interleaving keeps the shards balanced
        order = sorted(range(len(cases)), key=lambda i: -cases[i].get("_cost", 1.0))
        shards = [[] for _ in range(n)]
        loads = [0.0] * n
        for i in order:
            j = loads.index(min(loads))
            shards[j].append(i)
            loads[j] += cases[i].get("_cost", 1.0)
        env = dict(os.environ)
        env["PYTHONPATH"] = C.REPO + os.pathsep + C.VERIF
        env["PYTHONDONTWRITEBYTECODE"] = "1"
        env.setdefault("PYTHONHASHSEED", "0")
        env["OMP_NUM_THREADS"] = env["OPENBLAS_NUM_THREADS"] = env["MKL_NUM_THREADS"] = "1"
        env["PYXABMON_WALL_SCALE"] = str(wall_scale)
        for j, idxs in enumerate(shards):
            fin = os.path.join(tmp, "in%d.json" % j)
            fout = os.path.join(tmp, "out%d.jsonl" % j)
            with open(fin, "w") as f:
                json.dump([[i, cases[i]] for i in idxs], f)
            ferr = open(os.path.join(tmp, "err%d.txt" % j), "w")
            p = subprocess.Popen([sys.executable, "-B", "-W", "ignore", "-m", "pyxabmon.worker", prop, fin, fout],
                                 cwd=C.VERIF, env=env, stdout=ferr, stderr=ferr)
            procs.append((p, fout, ferr, idxs))
        deadline = time.time() + wall_per_shard
        for p, fout, ferr, idxs in procs:
            try:
                p.wait(timeout=max(1.0, deadline - time.time()))
            except subprocess.TimeoutExpired:
                p.kill()
                p.wait()
            ferr.close()
        results, unfinished, errs = {}, [], []
        for j, (p, fout, ferr, idxs) in enumerate(procs):
            if os.path.exists(fout + ".cov"):
                try:
                    for rec in json.load(open(fout + ".cov")):
                        if len(rec) == 2:
                            LINECOV.add((rec[0], int(rec[1])))
                        else:
                            BRANCHCOV.add(tuple(rec))
                except (ValueError, OSError):
                    pass
            if os.path.exists(fout):
                for line in open(fout):
                    line = line.strip()
                    if line:
                        try:
                            r = json.loads(line)
                        except ValueError:
                            continue
                        results[r["i"]] = r
            for i in idxs:
                if i not in results:
                    unfinished.append(i)
            if p.returncode != 0:
                try:
                    errs.append(open(os.path.join(tmp, "err%d.txt" % j)).read()[-2000:])
                except OSError:
                    pass
        return results, unfinished, errs
    finally:
        for p, *_ in procs:
            if p.poll() is None:
                p.kill()
        shutil.rmtree(tmp, ignore_errors=True)


def main(argv=None):
    ap = argparse.ArgumentParser()
    ap.add_argument("prop")
    ap.add_argument("--tier", default=os.environ.get("VERIF_TIER", "quick"))
    ap.add_argument("--seed", type=int, default=int(os.environ.get("VERIF_SEED", "0") or 0))
    ap.add_argument("--replay")
    ap.add_argument("--cases", type=int, default=0, help="override the number of generated cases")
    ap.add_argument("--no-evidence", action="store_true")
    a = ap.parse_args(argv)
    prop = a.prop.upper()
    tier = a.tier if a.tier in ("quick", "thorough") else "quick"
    M = load_prop(prop)
    t0 = time.time()

    if a.replay:
        rep = json.load(open(a.replay))
        if rep["case"].get("pooled"):
            # a verdict over the pooled observations of a whole run: the replay is that run
            return main([prop, "--tier", rep["case"]["tier"], "--seed", str(rep["case"]["seed"]), "--no-evidence"])
        res = M.run_case(rep["case"])
        print(json.dumps(C.jsonable({"viol": res.get("viol"), "crash": res.get("crash"), "obs": res.get("obs")}),
                         indent=1))
        bad = [v for v in res.get("viol", []) if not K.match(prop, rep["case"], v)]
        if bad:
            print("VIOLATION property=%s replay=%s" % (prop, a.replay))
            return 1
        return 0

    import numpy as np
    rng = np.random.default_rng([a.seed, int(prop[1:]), 0 if tier == "quick" else 1])
    cases = M.gen_cases(rng, tier, a.cases or None)
    findings = K.load()
    probes = []
    for f in findings:
        if f["property"] == prop and f["status"] == "open" and f.get("probe"):
            c = dict(f["probe"])
            c["_probe_of"] = f["id"]
            probes.append(c)
    all_cases = cases + probes
    wall = getattr(M, "WALL", {"quick": 900, "thorough": 6 * 3600})[tier]
    results, unfinished, errs = run_sharded(prop, all_cases, wall)
    # a wall-clock watchdog is a guard against hangs of the harness, never a verdict; on a loaded machine it can fire
    # on a slow but healthy case.  Such cases (and cases a killed shard never reached) get one more run with an
    # eight-fold limit before they make the check inconclusive.  Hangs of PyXAB itself are decided on logical steps
    # (StepBudget) and are not affected.
    again = sorted(set(unfinished) | {i for i, r in results.items() if r.get("watchdog")})
    retried = 0
    if again and len(again) <= 24:  # (many stopped cases are a systematic hang, not machine load)
        retried = len(again)
        r2, u2, e2 = run_sharded(prop, [all_cases[i] for i in again], wall, wall_scale=8)
        for k, r in r2.items():
            r["i"] = again[k]
            results[again[k]] = r
        unfinished = [again[k] for k in u2]
        errs += e2

    extra = {}
    extra_viol = []
    if hasattr(M, "extra"):
        extra = M.extra(tier, a.seed) or {}
        extra_viol = extra.pop("_violations", [])

    # ---- aggregate
    obs_sum = collections.Counter()
    obs_max = {}
    sigs = set()
    nontriv_sigs = set()
    samples = []
    unlisted = []  # (case, violation)
    known_hits = collections.OrderedDict()
    harness = []
    watchdog = []
    crashes_other = collections.Counter()
    n_eval = 0
    slow = sorted(((r.get("_secs", 0), i) for i, r in results.items()), reverse=True)[:3]
    slowest = [{"seconds": sec, "algo": all_cases[i].get("algo"), "part": all_cases[i].get("part"),
                "n": all_cases[i].get("n"), "T": all_cases[i].get("T")} for sec, i in slow]
    for i, case in enumerate(all_cases):
        r = results.get(i)
        if r is None:
            continue
        if r.get("harness"):
            harness.append((case, r["harness"]))
            continue
        if r.get("watchdog"):
            watchdog.append(case)
            continue
        n_eval += 1
        for k, v in r.get("obs", {}).items():
            if k.startswith("max_"):
                obs_max[k] = max(obs_max.get(k, v), v)
            else:
                obs_sum[k] += v
        sig = C.case_sig(case) if "algo" in case else json.dumps(C.jsonable(case), sort_keys=True)[:400]
        sigs.add(sig)
        if r.get("nontrivial"):
            nontriv_sigs.add(sig)
            if len(samples) < 4 and not case.get("_probe_of"):
                samples.append({"case": {k: v for k, v in case.items() if not k.startswith("_")},
                                "observed": {k: v for k, v in r.get("obs", {}).items() if not k.startswith("~")}})
        if r.get("crash_other"):
            crashes_other[r["crash_other"]] += 1
        for v in r.get("viol", []):
            f = K.match(prop, case, v, findings)
            if f:
                known_hits.setdefault(f["id"], [f, 0])
                known_hits[f["id"]][1] += 1
            else:
                unlisted.append((case, v))
    for v in extra_viol:
        f = K.match(prop, v.get("case", {}), v, findings)
        if f:
            known_hits.setdefault(f["id"], [f, 0])
            known_hits[f["id"]][1] += 1
        else:
            unlisted.append((v.get("case", {}), v))

    # pooled statistics ("~" keys are summed over all cases and judged once, by the property's own post() hook)
    pooled = {k: obs_sum.pop(k) for k in [k for k in obs_sum if k.startswith("~")]}
    post = M.post(pooled, obs_sum, tier) if hasattr(M, "post") else {}
    for v in post.get("violations", []):
        unlisted.append(({"algo": v.get("algo", "pooled"), "pooled": True, "tier": tier, "seed": int(a.seed)}, v))

    # every open finding's probe must still fail the way the file says (else the entry is stale: said, not alarmed)
    stale = []
    for f in findings:
        if f["property"] == prop and f["status"] == "open":
            if f["id"] in known_hits:
                print("KNOWN-FINDING: property=%s %s [%s; matched %d time(s) in this run]" % (
                    prop, f["text"], f["id"], known_hits[f["id"]][1]))
            else:
                stale.append(f["id"])
                print("NOTE: known finding %s of %s was not reproduced in this run (stale entry or probe not reached)"
                      % (f["id"], prop))

    # ---- verdict
    floors = getattr(M, "FLOOR", {})
    floor = {k: (v[tier] if isinstance(v, dict) else v) for k, v in floors.items()}
    for k, v in extra.get("obs", {}).items():
        if k.startswith("max_"):
            obs_max[k] = max(obs_max.get(k, v), v)
        else:
            obs_sum[k] += v
    n_eval += int(extra.get("evaluations", 0))
    for s in extra.get("sigs", []):
        sigs.add(s)
        nontriv_sigs.add(s)
    samples += extra.get("samples", [])[:2]
    short = {k: (obs_sum.get(k, 0), v) for k, v in floor.items() if obs_sum.get(k, 0) < v}
    inconclusive = []
    if unfinished:
        inconclusive.append("%d case(s) not finished before the shard wall-clock limit" % len(unfinished))
    if watchdog:
        inconclusive.append("%d case(s) stopped by the wall-clock watchdog" % len(watchdog))
    if harness:
        inconclusive.append("%d harness error(s): %s" % (len(harness), str(harness[0][1])[-600:]))
    if short:
        inconclusive.append("oracle floor not reached: %s" % short)
    if len(nontriv_sigs) < 2:
        inconclusive.append("fewer than 2 distinct non-trivial cases")
    if errs and not results:
        inconclusive.append("workers failed: %s" % errs[0][-800:])
    inconclusive += post.get("inconclusive", [])

    os.makedirs(os.path.join(C.VERIF, "replays"), exist_ok=True)
    seen_pred = set()
    viol_lines = []
    for case, v in unlisted:
        key = (case.get("algo"), v.get("pred"))
        if key in seen_pred:
            continue
        seen_pred.add(key)
        name = "%s_%s_%s_s%d_%d.json" % (prop, case.get("algo", "x"), "".join(
            ch if ch.isalnum() else "_" for ch in str(v.get("pred")))[:40], a.seed, len(seen_pred))
        path = os.path.join("replays", name)
        with open(os.path.join(C.VERIF, path), "w") as f:
            json.dump(C.jsonable({"property": prop, "case": {k: w for k, w in case.items() if not k.startswith("_")},
                                  "violation": v}), f, indent=1)
        viol_lines.append("VIOLATION property=%s replay=%s" % (prop, path))
        print("  violated predicate: %s | algo=%s part=%s | %s" % (
            v.get("pred"), case.get("algo"), case.get("part"), json.dumps(C.jsonable(v.get("detail")))[:300]))

    wall_s = time.time() - t0
    cov = {
        "evaluations": int(n_eval),
        "distinct_nontrivial": int(len(nontriv_sigs)),
        "distinct_cases": int(len(sigs)),
        "rule": M.RULE,
        "samples": C.jsonable(samples) or [{"note": "no non-trivial sample recorded"}],
        "observed": C.jsonable(dict(obs_sum)),
        "observed_max": C.jsonable(obs_max),
        "oracle_floors": C.jsonable(floor),
        "known_findings_matched": {k: v[1] for k, v in known_hits.items()},
        "stale_known_findings": stale,
        "unlisted_violations": len(unlisted),
        "inconclusive_reasons": inconclusive,
        "crashes_ignored_by_this_check": dict(crashes_other),
        "workers": NPROC,
        "cases_run_again_after_a_wall_clock_watchdog": retried,
        "slowest_cases": slowest,
    }
    for k, v in extra.items():
        if k not in ("obs", "evaluations", "sigs", "samples"):
            cov[k] = C.jsonable(v)
    for k, v in post.get("coverage", {}).items():
        cov[k] = C.jsonable(v)
    per, missing = linecov_summary()
    cov["pyxab_source_lines_reached_by_this_run"] = per
    if os.environ.get("PYXABMON_LINECOV_OUT"):
        with open(os.environ["PYXABMON_LINECOV_OUT"], "w") as f:
            json.dump({"reached": per, "not_reached": missing, "branches": sorted(BRANCHCOV)}, f, indent=1)
    ev = {
        "property_id": prop, "tier": tier, "seed": int(a.seed), "level": getattr(M, "LEVEL", "exploration"),
        "coverage": cov, "assumptions": M.ASSUMPTIONS, "wall_s": round(wall_s, 2), "violations": len(unlisted),
    }
    if not a.no_evidence:
        os.makedirs(os.path.join(C.VERIF, "evidence"), exist_ok=True)
        with open(os.path.join(C.VERIF, "evidence", "%s.json" % prop), "w") as f:
            json.dump(ev, f, indent=1, sort_keys=True)

    print("%s tier=%s seed=%d: %d executions, %d distinct non-trivial, observed %s, max %s, %.1fs" % (
        prop, tier, a.seed, n_eval, len(nontriv_sigs), dict(obs_sum), obs_max, wall_s))
    print("  slowest cases: %s" % slowest)
    if crashes_other:
        print("  (crashes seen but owned by C01, not judged here: %s)" % dict(crashes_other))
    if viol_lines:
        for l in viol_lines:
            print(l)
        return 1
    if inconclusive:
        print("INCONCLUSIVE property=%s %s" % (prop, "; ".join(inconclusive)))
        return 3
    print("HELD property=%s on everything explored" % prop)
    return 0


if __name__ == "__main__":
    sys.exit(main())
