"""Partition monitors: C02 (children exactly tile the parent) and C03 (tree <-> per-depth index consistency).

Used in two workloads: (a) partition-only histories - random interleavings of deepen() and make_children(leaf,
newlayer = leaf is at the deepest level) on hostile boxes with injected RNG outcomes, with icontract contracts on the
real classes as an additional observation route - and (b) inside every algorithm run through the Hub."""
import itertools
import math

import numpy as np

from . import common as C
from .driver import Monitor, RNGInjection

try:
    import icontract  # noqa: F401
    HAVE_ICONTRACT = True
except Exception:  # pragma: no cover
    icontract = None
    HAVE_ICONTRACT = False


def _finite_box(dom):
    return all(math.isfinite(a) and math.isfinite(b) for a, b in dom)


def split_problems(part_name, parent, kids, dim):
    """bit-exact tiling oracle for one split; returns a list of (predicate, detail)"""
    pd = parent.get_domain()
    d = len(pd)
    bad = []
    want = C.arity(part_name, d)
    if kids is None or len(kids) != want:
        return [("C02:wrong_number_of_children", {"have": None if kids is None else len(kids), "want": want})]
    for k in kids:
        kd = k.get_domain()
        if len(kd) != d or any(len(iv) != 2 for iv in kd):
            return [("C02:child_box_has_wrong_shape", {"box": repr(kd)[:100]})]
    if part_name == "DimBin":
        # children = all 2^d combinations of a lower half [lo, m_j] and an upper half [m_j, hi] per dimension, with one
        # common cut m_j per dimension (bit-identical in all children) at the middle of the side up to rounding
        cuts = []
        for j in range(d):
            lo, hi = pd[j]
            D = sorted({(k.get_domain()[j][0], k.get_domain()[j][1]) for k in kids})
            ok = (len(D) == 2 and D[0][0] == lo and D[0][1] == D[1][0] and D[1][1] == hi) or (
                len(D) == 1 and lo == hi and D[0] == (lo, hi))
            if not ok:
                bad.append(("C02:children_are_not_the_2^d_half_boxes", {"parent": pd, "dimension": j,
                                                                        "intervals": D[:4]}))
                return bad
            m = D[0][1]
            w = (hi - lo) / 2
            tol = 4 * float(np.spacing(max(abs(lo), abs(hi), abs(w)))) + 2 * float(np.spacing(abs(w)))
            if not (lo <= m <= hi) or abs((m - lo) - w) > tol:
                bad.append(("C02:children_of_equal_size_partition_differ_in_width", {"cut": m, "parent": pd[j]}))
            cuts.append([(lo, m), (m, hi)])
        want_boxes = sorted(itertools.product(*cuts))
        have = sorted(tuple((iv[0], iv[1]) for iv in k.get_domain()) for k in kids)
        if not bad and have != want_boxes:
            bad.append(("C02:children_are_not_the_2^d_half_boxes", {"parent": pd, "first_child": kids[0].get_domain()}))
    else:
        found, why = False, []
        for j in range(d):
            if any(k.get_domain()[i][0] != pd[i][0] or k.get_domain()[i][1] != pd[i][1]
                   for k in kids for i in range(d) if i != j):
                continue
            ivs = [k.get_domain()[j] for k in kids]
            b2 = []
            if ivs[0][0] != pd[j][0] or ivs[-1][1] != pd[j][1]:
                b2.append(("C02:outer_faces_are_not_the_parents", {"children": ivs, "parent": pd[j]}))
            for a, b in zip(ivs, ivs[1:]):
                if a[1] != b[0]:
                    b2.append(("C02:neighbouring_children_do_not_share_a_boundary", {"left": a, "right": b}))
            for iv in ivs:
                if not (pd[j][0] <= iv[0] <= iv[1] <= pd[j][1]):
                    b2.append(("C02:child_not_contained_in_parent", {"child": iv, "parent": pd[j]}))
            if part_name in C.EQUAL_SIZE and not b2:
                w = (pd[j][1] - pd[j][0]) / len(kids)
                # rounding of the end points (4 ulp at their magnitude) plus the rounding of the step w, which
                # np.linspace multiplies by i <= K (matters only for subnormal widths, where ulp(w) is not << w)
                tol = 4 * float(np.spacing(max(abs(pd[j][0]), abs(pd[j][1]), abs(w)))) + len(kids) * float(
                    np.spacing(abs(w)))
                for iv in ivs:
                    if abs((iv[1] - iv[0]) - w) > tol:
                        b2.append(("C02:children_of_equal_size_partition_differ_in_width",
                                   {"width": iv[1] - iv[0], "want": w, "parent": pd[j]}))
                        break
            if not b2:
                found = True
                break
            if not why or len(b2) < len(why):
                why = b2
        if not found:
            bad += why or [("C02:children_differ_from_parent_in_more_than_one_dimension",
                            {"parent": pd, "first_child": kids[0].get_domain()})]
    for k in kids:
        cp = k.get_cpoint()
        for c, iv in zip(cp, k.get_domain()):
            if c != (iv[0] + iv[1]) / 2:
                bad.append(("C02:representative_is_not_the_centre", {"point": c, "interval": iv}))
                break
        if len(cp) != d:
            bad.append(("C02:representative_has_wrong_dimension", {"len": len(cp)}))
    return bad


def leaves_of(part):
    return [x for x in C.reachable(part) if not x.get_children()]


def leaves_problems(part, rng, npoints=120):
    """the leaves of a grown tree tile the root box"""
    root = part.get_root().get_domain()
    d = len(root)
    L = leaves_of(part)
    bad = []
    if d == 1:
        ivs = sorted((tuple(x.get_domain()[0]) for x in L))
        if ivs[0][0] != root[0][0] or ivs[-1][1] != root[0][1]:
            bad.append(("C02:leaves_do_not_span_the_domain", {"first": ivs[0], "last": ivs[-1], "root": root[0]}))
        # exact tiling => sorted by (lo, hi) every leaf starts where the previous one ended (zero-width leaves sit on
        # a boundary and sort right before / after their sibling)
        pos = root[0][0]
        for lo, hi in ivs:
            if lo > pos:
                bad.append(("C02:gap_between_leaves", {"at": pos, "next": lo}))
                break
            if lo < pos:
                bad.append(("C02:leaves_overlap", {"at": pos, "leaf": (lo, hi)}))
                break
            pos = hi
        return bad, len(L)
    boxes = np.array([[iv for iv in x.get_domain()] for x in L], dtype=float)  # (L, d, 2)
    pts = []
    for _ in range(npoints):
        pts.append([lo + (hi - lo) * float(rng.random()) for lo, hi in root])
    for x in L[:30]:
        dom = x.get_domain()
        pts.append([dom[j][int(rng.integers(2))] for j in range(d)])
        pts.append([(dom[j][0] + dom[j][1]) / 2 for j in range(d)])
    for p in pts:
        if not all(lo <= v <= hi for v, (lo, hi) in zip(p, root)):
            continue
        p_ = np.array(p)
        inside = np.all((boxes[:, :, 0] <= p_) & (p_ <= boxes[:, :, 1]), axis=1)
        strict = np.all((boxes[:, :, 0] < p_) & (p_ < boxes[:, :, 1]), axis=1)
        if not inside.any():
            bad.append(("C02:point_of_the_domain_lies_in_no_leaf", {"point": p}))
            break
        if strict.sum() > 1:
            bad.append(("C02:interiors_of_two_leaves_overlap", {"point": p}))
            break
    return bad, len(L)


def _is_int(v):
    try:
        return int(v) == v and not isinstance(v, bool)
    except (TypeError, ValueError, OverflowError):
        return False


def tree_problems(part):
    """C03 walker; returns list of (predicate, detail)"""
    bad = []
    nl = part.get_node_list()
    if part.get_depth() != len(nl) - 1:
        bad.append(("C03:reported_depth_is_not_the_deepest_level", {"depth": part.get_depth(), "levels": len(nl)}))
    listed = {}
    for h, layer in enumerate(nl):
        if not layer:
            bad.append(("C03:empty_level", {"level": h}))
        labels = set()
        for x in layer:
            if id(x) in listed:
                bad.append(("C03:cell_listed_twice", {"depth": x.get_depth(), "index": x.get_index(), "level": h}))
                continue
            listed[id(x)] = x
            if x.get_depth() != h:
                bad.append(("C03:cell_listed_at_wrong_level", {"depth": x.get_depth(), "level": h}))
            lab = (int(x.get_depth()), int(x.get_index()) if _is_int(x.get_index()) else repr(x.get_index()))
            if _is_int(x.get_index()) and not (1 <= int(x.get_index())):
                bad.append(("C03:index_label_out_of_range", {"depth": h, "index": int(x.get_index())}))
            if lab in labels:
                bad.append(("C03:duplicate_depth_index_label", {"label": lab}))
            labels.add(lab)
        if len(bad) > 5:
            return bad
    root = part.get_root()
    if not nl or not nl[0] or nl[0][0] is not root or len(nl[0]) != 1:
        bad.append(("C03:level_0_is_not_the_root", {}))
    reach = {}
    stack = [root]
    while stack:
        x = stack.pop()
        if id(x) in reach:
            bad.append(("C03:cell_reachable_twice", {"depth": x.get_depth(), "index": x.get_index()}))
            continue
        reach[id(x)] = x
        ch = x.get_children()
        if ch is None:
            continue
        K = len(ch)
        for j, c in enumerate(ch):
            if c.get_parent() is not x:
                bad.append(("C03:child_list_contains_a_cell_of_another_parent",
                            {"parent": (x.get_depth(), x.get_index()), "child": (c.get_depth(), c.get_index()),
                             "children": K}))
                continue
            if c.get_depth() != x.get_depth() + 1:
                bad.append(("C03:child_depth_is_not_parent_depth_plus_one", {"child": c.get_depth()}))
            # exact (Python int) arithmetic: fixed-width integer labels would wrap around in deep trees
            if not _is_int(c.get_index()) or int(c.get_index()) != K * (int(x.get_index()) - 1) + 1 + j:
                bad.append(("C03:child_index_not_consecutive", {"parent_index": x.get_index(), "position": j,
                                                                "index": c.get_index(), "K": K}))
            stack.append(c)
        if len(bad) > 5:
            return bad
    if set(reach) != set(listed):
        only_l = [listed[k] for k in set(listed) - set(reach)]
        only_r = [reach[k] for k in set(reach) - set(listed)]
        bad.append(("C03:listed_cells_differ_from_cells_reachable_from_the_root", {
            "listed_not_reachable": len(only_l), "reachable_not_listed": len(only_r),
            "example": (only_l + only_r)[0].get_depth()}))
    if root.get_parent() is not None:
        bad.append(("C03:root_has_a_parent", {}))
    return bad


# ---------------------------------------------------------------------------------------------------------------
# monitors inside algorithm runs


class SplitMon(Monitor):
    """C02 in algorithm runs: every make_children of every partition the run creates"""

    def after_mc(self, ev):
        name = getattr(ev["part"], "_mon_name", None)
        if name is None:
            return
        self.obs["splits_checked"] += 1
        for pred, det in split_problems(name, ev["parent"], ev["parent"].get_children(), len(ev["parent"].get_domain())):
            det["phase"] = ev["phase"]
            self.v(pred, **det)

    def finish(self, ctx):
        rng = np.random.default_rng([ctx.case.get("np_seed", 0), 11])
        for part in ctx.hub.partitions[:6]:
            if not _finite_box(part.get_root().get_domain()):
                continue
            bad, nleaves = leaves_problems(part, rng)
            self.obs["leaf_tilings_checked"] += 1
            self.obs["leaves_seen"] += nleaves
            for pred, det in bad:
                self.v(pred, **det)
            self.obs["max_tree_depth"] = max(self.obs.get("max_tree_depth", 0), part.get_depth())


class IndexMon(Monitor):
    """C03 in algorithm runs: the walker at quiescent points (after every receive_reward every `every` rounds, after
    get_last_point, at the end) on every partition of the run"""

    def __init__(self, every=1):
        super().__init__()
        self.every = every

    def _walk(self, ctx, where):
        for part in ctx.hub.partitions:
            self.obs["tree_walks"] += 1
            for pred, det in tree_problems(part):
                det["at"] = where
                self.v(pred, **det)
            self.obs["max_tree_depth"] = max(self.obs.get("max_tree_depth", 0), part.get_depth())

    def start(self, ctx):
        self._walk(ctx, "after construction")

    def on_reward(self, ctx, t, r):
        if ctx.round % self.every == 0 or ctx.hub.mc_events and ctx.hub.mc_events[-1]["round"] == ctx.round - 1:
            self._walk(ctx, "after receive_reward")

    def on_query(self, ctx, p):
        self._walk(ctx, "after get_last_point")

    def on_last(self, ctx, p):
        self._walk(ctx, "after get_last_point")

    def finish(self, ctx):
        self._walk(ctx, "end of run")
        self.obs["cells_walked"] += sum(len(C.all_nodes(p)) for p in ctx.hub.partitions)


# ---------------------------------------------------------------------------------------------------------------
# partition-only workload


class ContractBroken(Exception):
    pass


_contract_state = {"evals": 0, "last": None, "inv_evals": 0}


def _post_tiles(self, parent):
    _contract_state["evals"] += 1
    bad = split_problems(self._mon_name, parent, parent.get_children(), len(parent.get_domain()))
    _contract_state["last"] = bad
    return not bad


def _inv_consistent(self):
    if not hasattr(self, "node_list") or getattr(self, "_mon_skip_inv", False):
        return True
    _contract_state["inv_evals"] += 1
    bad = tree_problems(self)
    _contract_state["last_inv"] = bad
    return not bad


def contracted_class(name, with_invariant):
    """subclass of the real class with icontract post-condition on the real make_children (and, for C03, a class
    invariant); falls back to the plain subclass when icontract is unavailable"""
    base, K = C.PART_SPECS[name]

    class _P(base):
        _mon_name = name

        def __init__(self, domain=None, node=None):
            kw = {}
            if K is not None:
                kw["K"] = K
            if node is not None:
                kw["node"] = node
            super().__init__(domain=domain, **kw)

    _P.__name__ = base.__name__
    if not HAVE_ICONTRACT:
        return _P
    if with_invariant:
        _P = icontract.invariant(_inv_consistent, error=ContractBroken)(_P)
    else:
        _P.make_children = icontract.ensure(_post_tiles, error=ContractBroken)(base.make_children)
    return _P


HOSTILE_MAGS = [0.0, 1.0, -1.0, 1e-300, 1e300, -1e300, 3.7, 1e16, -1e-5, 2.5e-310, 0.1]


def hostile_box(rng, dim):
    box = []
    for _ in range(dim):
        lo = float(rng.choice(HOSTILE_MAGS)) * (1 if rng.random() < .5 else float(rng.random()))
        kind = int(rng.integers(9))
        if kind == 7:
            # subnormal grid: both ends are small multiples of 5e-324 (children a few units wide after one split)
            lo = 5e-324 * float(rng.integers(0, 60)) * float(rng.choice([1, -1]))
            hi = lo + 5e-324 * float(rng.integers(2, 400))
        elif kind == 8:
            # ulp grid around a normal number: the box is a few hundred ulps wide
            lo = float(rng.choice([1.0, -3.7, 1e16, 0.1, 1e-300]))
            hi = lo
            for _ in range(int(rng.integers(2, 300))):
                hi = float(np.nextafter(hi, np.inf))
        elif kind == 0:
            hi = float(np.nextafter(lo, np.inf))  # adjacent floats
        elif kind == 1:
            hi = lo + (abs(lo) * 1e-15 if lo else 5e-324) * float(rng.integers(1, 9))
        elif kind == 2:
            hi = lo + 5e-324 * float(rng.integers(1, 1000)) if abs(lo) < 1e-300 else lo + abs(lo) * 1e-12
        else:
            hi = lo + float(rng.choice([1, 1e-3, 1e3, abs(lo) + 1, 1e300, 1e-6, 3.0]))
        if not (hi > lo and math.isfinite(hi) and abs(lo + hi) <= 1e300 * 1.0000001):
            hi = float(np.nextafter(lo, np.inf))
        box.append([lo, float(hi)])
    return box


def run_partition_case(case, prop):
    """random interleaving of deepen() and make_children(leaf, newlayer = leaf at deepest level)"""
    viol, obs = [], {}
    name = case["part"]
    rng = np.random.default_rng([case["ops_seed"], 5])
    cls = contracted_class(name, with_invariant=(prop == "C03"))
    np.random.seed(case["np_seed"])
    nsplit = nwalk = 0
    ops = []
    pars_last = []

    def note(pred, det, step):
        if len(viol) < 6:
            viol.append({"pred": pred, "round": step, "detail": C.jsonable(dict(det, ops=ops[-12:]))})

    with RNGInjection(case.get("inject")) as inj:
        try:
            comp_first = None
            if (case.get("companion") or {}).get("built_first"):
                comp_first = cls(domain=[list(iv) for iv in case["companion"]["box"]])
                comp_first._mon_name = name
            dom = [list(iv) for iv in case["box"]]
            if case.get("alias_box"):
                dom = [dom[0]] * len(dom)
            P = cls(domain=dom)
        except ContractBroken:
            for pred, det in _contract_state.get("last_inv") or []:
                note(pred, det, -1)
            return {"viol": [v for v in viol if v["pred"].startswith(prop)], "obs": {}, "nontrivial": False}
        P._mon_name = name
        e0, i0 = _contract_state["evals"], _contract_state["inv_evals"]
        Q = None
        comp = case.get("companion")
        if comp and not comp.get("built_first"):
            Q = cls(domain=[list(iv) for iv in comp["box"]])
            Q._mon_name = name
        elif comp:
            Q = comp_first
        for step in range(case["steps"]):
            total = sum(len(l) for l in P.node_list)
            try:
                if Q is not None and rng.random() < 0.6 and sum(len(l) for l in Q.node_list) < 600:
                    # a second partition of the same class over another box, alive at the same time and grown in
                    # between (its splits are judged by the same contract): state shared between instances shows here
                    lvq = [x for l in Q.node_list for x in l if x.children is None]
                    if rng.random() < 0.3 and len(Q.node_list[-1]) * C.arity(name, len(comp["box"])) < 200:
                        ops.append("companion.deepen")
                        Q.deepen()
                    else:
                        xq = lvq[int(rng.integers(len(lvq)))]
                        ops.append("companion.split(%d,%d)" % (xq.depth, xq.index))
                        Q.make_children(xq, newlayer=xq.depth >= Q.depth)
                if rng.random() < case.get("p_deepen", 0.3) and len(P.node_list[-1]) * C.arity(name, len(case["box"])) + total < case.get("max_nodes", 400):
                    pars = list(P.node_list[-1])
                    ops.append("deepen")
                    P.deepen()
                else:
                    if case.get("chain") and pars_last:
                        # a single deep path: split a child of the cell split last
                        kids = pars_last[-1].children
                        if case["chain"] == "origin":
                            # follow the cell that contains (or is nearest to) the origin: cells straddling zero
                            def dist0(k):
                                return sum(0.0 if lo <= 0.0 <= hi else min(abs(lo), abs(hi)) for lo, hi in k.domain)
                            x = min(kids, key=dist0)
                        else:
                            x = kids[-1] if case["chain"] == "last" else kids[int(rng.integers(len(kids)))]
                    else:
                        lv = [x for l in P.node_list for x in l if x.children is None]
                        x = lv[int(rng.integers(len(lv)))]
                    nl = x.depth >= P.depth
                    ops.append("split(%d,%d,%s)" % (x.depth, x.index, "new" if nl else "old"))
                    P.make_children(x, newlayer=nl)
                    pars = [x]
                    pars_last = [x]
            except ContractBroken:
                src = _contract_state.get("last_inv") if prop == "C03" else _contract_state.get("last")
                for pred, det in src or [("%s:contract_broken" % prop, {})]:
                    det = dict(det, via="icontract")
                    note(pred, det, step)
                break
            except Exception as e:
                # a partition operation raised (on the unchanged code none does on these histories).  Whether that
                # is acceptable is not C02's / C03's business - but the tree the failed operation leaves behind is
                # still the user's tree: it is walked, and an inconsistent one is reported
                obs["partition_operations_raising"] = obs.get("partition_operations_raising", 0) + 1
                if prop == "C03":
                    P._mon_skip_inv = True
                    try:
                        for pred, det in tree_problems(P):
                            note(pred, dict(det, after_operation_raised=repr(e)[:120]), step)
                    finally:
                        P._mon_skip_inv = False
                if not viol:
                    return {"harness": "partition operation raised and left a consistent tree: %r (ops %s)" % (e, ops[-6:])}
                break
            if prop == "C02":
                for par in pars:
                    nsplit += 1
                    for pred, det in split_problems(name, par, par.get_children(), len(case["box"])):
                        note(pred, det, step)
            else:
                P._mon_skip_inv = True  # the explicit walker uses getters; do not re-enter the invariant
                try:
                    nwalk += 1
                    for pred, det in tree_problems(P):
                        note(pred, det, step)
                finally:
                    P._mon_skip_inv = False
            if viol:
                break
        P._mon_skip_inv = True
        if prop == "C02" and not viol and _finite_box(case["box"]):
            bad, nleaves = leaves_problems(P, rng)
            obs["leaf_tilings_checked"] = 1
            obs["leaves_seen"] = nleaves
            for pred, det in bad:
                note(pred, det, case["steps"])
        obs["splits_checked"] = nsplit
        obs["tree_walks"] = nwalk
        obs["partition_ops"] = len(ops)
        obs["contract_evaluations"] = (_contract_state["evals"] - e0) + (_contract_state["inv_evals"] - i0)
        obs["rng_outcomes_injected"] = inj.n_inj
        obs["max_tree_depth"] = P.depth
        obs["cells_walked"] = sum(len(l) for l in P.node_list)
    return {"viol": [v for v in viol if v["pred"].startswith(prop)], "obs": obs,
            "nontrivial": len(ops) >= 5 and P.depth >= 2}
