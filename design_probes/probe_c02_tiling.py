from drv import *
import itertools, collections
def check_split(P,parent,kids,equal):
    pd=parent.get_domain(); d=len(pd); bad=[]
    name=type(P).__mro__[1].__name__ if type(P).__name__.startswith(('Kary','RandomKary')) is False else type(P).__name__
    if isinstance(P,DimensionBinaryPartition):
        if len(kids)!=2**d: bad.append('arity')
        seen=set()
        for k in kids:
            key=[]
            for j,(iv,piv) in enumerate(zip(k.get_domain(),pd)):
                mid=(piv[0]+piv[1])/2
                if iv==[piv[0],mid]: key.append(0)
                elif iv==[mid,piv[1]]: key.append(1)
                else: bad.append(('dimbin interval',iv,piv))
            seen.add(tuple(key))
        
    else:
        found=False; why=[]
        for j in range(d):
            if any(k.get_domain()[i]!=pd[i] for k in kids for i in range(d) if i!=j): continue
            ivs=[k.get_domain()[j] for k in kids]; b2=[]
            if ivs[0][0]!=pd[j][0] or ivs[-1][1]!=pd[j][1]: b2.append(('outer faces',ivs,pd[j]))
            for a,b in zip(ivs,ivs[1:]):
                if a[1]!=b[0]: b2.append(('gap/overlap',a,b))
            for iv in ivs:
                if not (pd[j][0]<=iv[0]<=iv[1]<=pd[j][1]): b2.append(('not contained/ordered',iv,pd[j]))
            if equal:
                w=(pd[j][1]-pd[j][0])/len(kids)
                for iv in ivs:
                    if abs((iv[1]-iv[0])-w)>4*np.spacing(max(abs(pd[j][0]),abs(pd[j][1]))): b2.append(('unequal',iv[1]-iv[0],w,pd[j]))
            if not b2: found=True; break
            why=b2
        if not found: bad+= why or [('no split dim',)]
    for k in kids:
        for c,iv in zip(k.get_cpoint(),k.get_domain()):
            if c!=(iv[0]+iv[1])/2: bad.append(('centre',c,iv))
    return bad
c=collections.Counter(); first={}
rng=np.random.default_rng(1)
mags=[0.0,1.0,-1.0,1e-300,1e300,-1e300,3.7,1e16,-1e-5]
for it in range(3000):
    pk=rng.choice(list(PARTS)); d=int(rng.integers(1,4))
    dom=[]
    for _ in range(d):
        lo=float(rng.choice(mags))*(1 if rng.random()<.5 else rng.random()); 
        w=float(rng.choice([1,1e-3,1e3,abs(lo)*1e-15 if lo else 5e-324,abs(lo)+1,1e300]))
        hi=lo+w
        if not (hi>lo and math.isfinite(hi) and abs(lo+hi)<1.7e308): hi=np.nextafter(lo,np.inf)
        dom.append([lo,float(hi)])
    np.random.seed(it)
    P=PARTS[pk](domain=dom)
    equal=pk in('Bin','DimBin') or pk.startswith('K')
    for step in range(12):
        if rng.random()<0.3 and sum(len(l) for l in P.get_node_list())<200: 
            before=[x for x in P.get_node_list()[P.get_depth()]]
            P.deepen(); pars=before
        else:
            lv=[x for l in P.get_node_list() for x in l if x.get_children() is None]
            x=lv[int(rng.integers(len(lv)))]
            P.make_children(x,newlayer=x.get_depth()>=P.get_depth()); pars=[x]
        for par in pars:
            for b in check_split(P,par,par.get_children(),equal):
                k=(pk if not pk[-1].isdigit() else pk[:-1], b if isinstance(b,str) else b[0]); c[k]+=1; first.setdefault(k,(dom,b))
print(dict(c)); 
for k,v in first.items(): print(k,v)
