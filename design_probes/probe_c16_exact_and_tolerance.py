from drv import *
import collections
def run(name,dom,pk,n,seed,R):
    np.random.seed(seed)
    a=mk(name,dom,PARTS[pk],n,np.random.default_rng(seed))[0]
    pts=[]
    for i in range(n):
        p=a.pull(1+i); pts.append(list(p)); a.receive_reward(1+i,float(R[i]))
    return pts+[list(a.get_last_point())]
A=[x for x in ALGOS if x!='VROOM']
res=collections.Counter(); first={}
lo,hi=int(sys.argv[1]),int(sys.argv[2])
for it in range(lo,hi):
    rng=np.random.default_rng(it+4242)
    name=A[it%len(A)]
    exact_tier=rng.random()<0.5
    d=int(rng.integers(1,4)); n=int(rng.choice([100,160]))
    R=rewards(rng.choice(['neg','tied','noisy','unit','const']),rng,n)
    if exact_tier:
        pk=rng.choice(['Bin','DimBin','K2','K4'])
        dom=[[float(rng.integers(-8,8))/4, 0] for _ in range(d)]
        for iv in dom: iv[1]=iv[0]+float(2.0**rng.integers(-3,4))
        s=float(2.0**rng.integers(-3,4)); b=float(rng.integers(-64,64))/8
        if name=='DOO': s=1.0
    else:
        pk=rng.choice(list(PARTS))
        if name=='Zooming' and pk in('Bin','DimBin','K2','K4'): pk='K3'
        if name=='DOO': continue
        dom=[[float(rng.uniform(-5,5)),0] for _ in range(d)]
        for iv in dom: iv[1]=iv[0]+float(10**rng.uniform(-2,2))
        s=float(10**rng.uniform(-2,2)); b=float(rng.uniform(-100,100))
    domT=[[lo_*s+b,hi_*s+b] for lo_,hi_ in dom]
    try:
        signal.alarm(200)
        base=run(name,dom,pk,n,it,R); img=run(name,domT,pk,n,it,R)
        signal.alarm(0)
    except Exception as e:
        signal.alarm(0); res[('EXC',name,str(e)[:40])]+=1; continue
    if exact_tier:
        ok=all([x*s+b for x in p]==q for p,q in zip(base,img))
    else:
        ok=all(abs(x*s+b-y)<=1e-9*(s*(h_-l_)+abs(b)+abs(s*l_)) for p,q in zip(base,img) for x,y,(l_,h_) in zip(p,q,dom))
    res[('exact' if exact_tier else 'tol',ok)]+=1
    if not ok: first.setdefault(('exact' if exact_tier else 'tol',name,pk),(it,dom,s,b))
print(dict(res)); print(first)
