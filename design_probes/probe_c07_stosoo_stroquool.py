from drv import *
import collections
def allnodes(part): return [x for l in part.get_node_list() for x in l]
c=collections.Counter(); first={}
for it in range(160):
    rng=np.random.default_rng(it+177)
    name=['StoSOO','StroquOOL'][it%2]
    pk=rng.choice(list(PARTS)); d=int(rng.integers(1,3)); n=int(rng.choice([100,200,400,800]))
    np.random.seed(it)
    a=mk(name,[[0.0,1.0]]*d,PARTS[pk],n,rng)[0]; part=a.partition
    led=collections.defaultdict(list)
    fam=rng.choice(['neg','tied','noisy','inc','dec','zero'])
    R=rewards(fam,rng,n) if fam not in('inc','dec') else (np.arange(n)/n if fam=='inc' else -np.arange(n)/n)
    T=n if rng.random()<.6 else int(rng.integers(n//2,n))
    valstart=None
    for t in range(1,T+1):
        p=a.pull(t)
        X=[x for x in allnodes(part) if x.get_cpoint() is p][0]
        if name=='StroquOOL' and a.candidate and valstart is None: valstart=t
        if name=='StroquOOL' and a.end: break
        a.receive_reward(t,float(R[t-1])); led[id(X)].append((t,float(R[t-1])))
    try: lp=a.get_last_point()
    except Exception as e: c[(name,'raise',type(e).__name__)]+=1; continue
    if name=='StoSOO':
        deep=part.get_node_list()[part.get_depth()]
        m={id(x):(np.mean([v for _,v in led[id(x)]]) if led[id(x)] else 0) for x in deep}
        best=max(m.values()); hit=[x for x in deep if x.get_cpoint() is lp]
        ok=bool(hit) and m[id(hit[0])]>=best-1e-12
    else:
        cands=[x for x in a.candidate]
        vm={id(x):np.mean([v for tt,v in led[id(x)] if tt>=valstart]) for x in cands if any(tt>=valstart for tt,_ in led[id(x)])}
        hit=[x for x in cands if x.get_cpoint() is lp]
        ok=bool(hit) and id(hit[0]) in vm and vm[id(hit[0])]>=max(vm.values())-1e-12
    c[(name,ok)]+=1
    if not ok: first.setdefault(name,(it,pk,d,n,T,fam))
print(dict(c),first)
