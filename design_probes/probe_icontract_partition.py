import sys; sys.path.insert(0,'/tmp/deps')
import icontract, time, numpy as np
from PyXAB.partition.KaryPartition import KaryPartition
from PyXAB.partition.BinaryPartition import BinaryPartition
from PyXAB.algos.HCT import HCT
class Broken(Exception): pass
N={'inv':0,'post':0}
def consistent(self):
    N['inv']+=1
    nl=self.get_node_list() if hasattr(self,'node_list') else None
    for h,l in enumerate(self.node_list):
        for x in l:
            if x.depth!=h: return False
            if x.children is not None and any(c.parent is not x for c in x.children): return False
    return True
def nkids(self): return sum(len(l) for l in self.node_list)
def grew(self,parent,OLD,result):
    N['post']+=1
    return nkids(self)==OLD.n+len(parent.get_children())
def wrap(P):
    Q=icontract.invariant(consistent,error=Broken)(P)
    Q.make_children=icontract.snapshot(nkids,name='n')(icontract.ensure(grew,error=Broken)(Q.make_children))
    return Q
Q=wrap(BinaryPartition)
t=time.time()
np.random.seed(0)
a=HCT(domain=[[0,1]],partition=Q)
for t_ in range(300):
    a.pull(t_); a.receive_reward(t_,np.random.rand())
print('Bin ok',N,time.time()-t, type(a.partition).__name__)
class K3(KaryPartition):
    def __init__(self,domain=None,node=None): super().__init__(domain=domain,K=3,node=node)
Q3=wrap(K3)
try:
    a=HCT(domain=[[0,1]],partition=Q3)
    for t_ in range(300):
        a.pull(t_); a.receive_reward(t_,np.random.rand())
    print('K3 silent',N)
except Broken as e: print('K3 fired',str(e)[:200])
