from drv import *
import PyXAB.algos.GPO as G
def rec(base):
    log=[]
    class R(base):
        def __init__(s,*a,**k): s._id=len([e for e in log if e[0]=='new']); log.append(('new',s._id,k.get('nu'),k.get('rho'))); super().__init__(*a,**k)
        def pull(s,t): p=super().pull(t); log.append(('pull',s._id)); return p
        def receive_reward(s,t,r): log.append(('rew',s._id,r)); return super().receive_reward(t,r)
    R.__name__=base.__name__
    return R,log
for n,rhomax in [(100,0.9),(100,0.3),(257,0.95),(1000,0.9),(100,0.5)]:
    R,log=rec(HCT)
    g=GPO(numax=1.0,rhomax=rhomax,rounds=n,domain=[[0,1]],algo=R)
    N=int(g.N); H=int(g.half_phase_length)
    pts=[]
    for t in range(1,n+1):
        p=g.pull(t); pts.append(p); g.receive_reward(t,float(t))
    news=[e for e in log if e[0]=='new']
    per={}
    for e in log:
        if e[0]!='new': per.setdefault(e[1],[0,0]); per[e[1]][0 if e[0]=='pull' else 1]+=1
    print(n,rhomax,'N',N,'H',H,'learners',len(news),'rhos',[round(x[3],4) for x in news][:6],'per',list(per.values())[:6],'V',[round(v,2) for v in g.V_reward][:6], g.get_last_point()==g.pull(n+1))
