from drv import *
from e5 import rec
import sys
def runpoo(n,rhomax,base,T,seed=0):
    R,log=rec(base)
    rng=np.random.default_rng(seed)
    g=POO(numax=1.0,rhomax=rhomax,rounds=n,domain=[[0,1]],algo=R)
    led={}
    bad=[]
    for t in range(1,T+1):
        l0=len(log)
        p=g.pull(t)
        ev=log[l0:]
        pulls=[e for e in ev if e[0]=='pull']
        if len(pulls)!=1: bad.append((t,'pulls',ev))
        l1=len(log); r=float(rng.normal())
        g.receive_reward(t,r)
        ev=log[l1:]
        rews=[e for e in ev if e[0]=='rew']
        if len(rews)!=1 or rews[0][1]!=pulls[0][1] or rews[0][2]!=r: bad.append((t,'rew',ev))
        led.setdefault(pulls[0][1],[]).append(r)
        for i,(v,c) in enumerate(zip(g.V_reward,g.Times)):
            h=led.get(i,[])
            if c!=len(h) or (h and abs(v-sum(h)/len(h))>1e-9): bad.append((t,'score',i,v,c,len(h),sum(h)/max(1,len(h))))
        if len(bad)>3: break
    news=[e for e in log if e[0]=='new']
    return g,news,led,bad
if __name__=='__main__':
  for n,rhomax in [(100,0.9),(1000,0.9),(1000,0.84),(1000,0.95),(1000,0.5),(2000,0.99)]:
    g,news,led,bad=runpoo(n,rhomax,T_HOO,n)
    print(n,rhomax,'learners',len(news),'distinct rho',len(set(e[3] for e in news)),'max rho<rhomax',max(e[3] for e in news)<rhomax,'counts',[len(v) for v in led.values()][:10],'bad',bad[:2])
