from drv import *
bad=[]
for n in list(range(100,700))+[1000,2000,5000]:
    a=StroquOOL(n=n,domain=[[0,1]],partition=BinaryPartition)
    try:
        endt=None
        for t in range(1,n+1):
            p=a.pull(t); a.receive_reward(t,0.5)
            if a.end and endt is None: endt=t
        p=a.get_last_point()
        cand=len(a.candidate)
        if endt is None: bad.append((n,'not ended',a.h_max,a.curr_depth,cand,a.curr_loc))
    except Exception as e:
        bad.append((n,repr(e)[:60]))
print(len(bad), bad[:20])
# print some h_max and end times
for n in (100,200,500,1000):
    a=StroquOOL(n=n,domain=[[0,1]],partition=BinaryPartition); endt=None
    for t in range(1,n+1):
        a.pull(t); a.receive_reward(t,0.5)
        if a.end and endt is None: endt=t
    print(n,a.h_max,a.p_max,endt,len(a.candidate))
