from drv import *
import collections
def allnodes(part): return [x for l in part.get_node_list() for x in l]
def leaves_by_depth(root):
    out=collections.defaultdict(list);st=[root]
    while st:
        x=st.pop()
        if x.get_children(): st.extend(x.get_children())
        else: out[x.get_depth()].append(x)
    return out
def mon(kind,seed,pk,d,n,rk):
    rng=np.random.default_rng(seed); np.random.seed(seed)
    dom=[[0.0,1.0]]*d
    cap=int(rng.choice([8,10,n])); k=int(rng.choice([1,2,3,5])); delta=float(rng.choice([0.01,0.1]))
    userdelta=(lambda h: 3.0*0.6**h)
    if kind=='SOO': a=SOO(n=n,h_max=cap,domain=dom,partition=PARTS[pk])
    elif kind=='StoSOO': a=StoSOO(n=n,k=k,h_max=cap,delta=delta,domain=dom,partition=PARTS[pk])
    elif kind=='DOO': a=DOO(n=n,delta=userdelta,domain=dom,partition=PARTS[pk])
    else: a=DOO(n=n,domain=dom,partition=PARTS[pk])
    part=a.partition; led={}; bycp={id(part.get_root().get_cpoint()):part.get_root()}
    bad=[]; ev=[]
    def bval(x):
        h=led.get(id(x),[])
        if kind=='StoSOO':
            return math.inf if not h else sum(h)/len(h)+math.sqrt(math.log(n*k/delta)/(2*len(h)))
        if kind=='SOO': return h[0]
        if kind=='DOO': return h[0]+userdelta(x.get_depth())
        w=max(max((y.get_domain()[0][0]-y.get_cpoint()[0])**2,(y.get_domain()[0][1]-y.get_cpoint()[0])**2) for y in allnodes(part) if y.get_depth()==x.get_depth())
        return h[0]+w
    need=k if kind=='StoSOO' else 1
    orig=part.make_children
    def mc(parent,newlayer=False):
        X=parent
        if X.get_children() is not None: bad.append(('expanded non-leaf',))
        if len(led.get(id(X),[]))<need: bad.append(('expanded under-evaluated',len(led.get(id(X),[]))))
        else:
            L=leaves_by_depth(part.get_root())
            # preceding unevaluated
            for h in L:
                if h<X.get_depth() and any(len(led.get(id(y),[]))==0 for y in L[h]) and (kind in('SOO','StoSOO') and h<=cap or kind.startswith('DOO')): bad.append(('unevaluated leaf precedes',h,X.get_depth()))
            if kind.startswith('DOO'):
                cands=[y for h in L for y in L[h] if led.get(id(y))]
            else: cands=[y for y in L[X.get_depth()] if led.get(id(y)) or kind=='StoSOO']
            best=max(bval(y) for y in cands)
            if bval(X)<best-1e-9*max(1,abs(best)): bad.append(('not best',bval(X),best))
            if ev and ev[-1][0]<X.get_depth() and bval(X)<ev[-1][1]-1e-12: bad.append(('not monotone in sweep',ev[-1],X.get_depth(),bval(X)))
            ev.append((X.get_depth(),bval(X)))
        orig(parent,newlayer=newlayer)
        for c in parent.get_children(): bycp[id(c.get_cpoint())]=c
    part.make_children=mc
    R=rewards(rk,rng,n)
    for t in range(1,n+1):
        ev.clear()
        p=a.pull(t)
        if p is None: bad.append(('None',t)); break
        X=bycp.get(id(p))
        if X is None: bad.append(('unknown point',)); break
        if kind.startswith('DOO') and len(ev)>1: bad.append(('>1 expansion per pull',))
        if X.get_children() is not None: bad.append(('pulled non-leaf',))
        if len(led.get(id(X),[]))>=need: bad.append(('over-evaluated',))
        if kind in('SOO','StoSOO') and X.get_depth()>cap: bad.append(('beyond cap',))
        L=leaves_by_depth(part.get_root())
        if kind!='StoSOO':
            un=[h for h in L if any(not led.get(id(y)) for y in L[h])]
            if X.get_depth()!=min(un): bad.append(('not first unevaluated top-down',X.get_depth(),min(un)))
        else:
            best=max(bval(y) for y in L[X.get_depth()])
            if bval(X)<best-1e-9*max(1,abs(best)): bad.append(('pulled not max-b of depth',))
            if ev and bval(X)<ev[-1][1]-1e-12: bad.append(('pulled below b_max',))
        r=float(R[t-1]); a.receive_reward(t,r); led.setdefault(id(X),[]).append(r)
        if len(bad)>3: break
    return bad,part.get_depth(),len(allnodes(part))
if __name__=='__main__':
  for kind in ['SOO','StoSOO','DOO','DOOdef']:
    c=collections.Counter(); info=[]; first={}
    for seed in range(60):
        rng=np.random.default_rng(seed+99)
        pk=rng.choice(['Bin','RBin','DimBin','K3','RK3']); d=int(rng.integers(1,3)); rk=rng.choice(['neg','const','zero','tied','noisy','unit'])
        bad,dp,nn=mon(kind,seed,pk,d,int(rng.choice([100,150])),rk); info.append((dp,nn))
        for b in bad: c[b[0]]+=1; first.setdefault(b[0],(seed,pk,d,rk,b))
    print(kind,dict(c),info[:6]); 
    for k,v in first.items(): print('   ',v)
