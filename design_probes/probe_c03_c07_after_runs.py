from drv import *
import collections
def struct(part):
    bad=[]
    nl=part.get_node_list(); root=part.get_root()
    if part.get_depth()!=len(nl)-1: bad.append('depth != len-1')
    if any(len(l)==0 for l in nl): bad.append('empty layer')
    seen=set(); reach=[]; st=[root]
    while st:
        x=st.pop()
        if id(x) in seen: bad.append('node reachable twice'); continue
        seen.add(id(x)); reach.append(x)
        ch=x.get_children()
        if ch is not None:
            K=len(ch)
            for j,c in enumerate(ch):
                if c.get_parent() is not x: bad.append('child.parent mismatch')
                if c.get_depth()!=x.get_depth()+1: bad.append('child depth')
                if c.get_index()!=K*(x.get_index()-1)+j+1: bad.append('child index')
            st.extend(ch)
    listed=[x for l in nl for x in l]
    if len(listed)!=len(set(map(id,listed))): bad.append('listed twice')
    if set(map(id,listed))!=seen: bad.append('listed != reachable (%d vs %d)'%(len(listed),len(seen)))
    for h,l in enumerate(nl):
        if any(x.get_depth()!=h for x in l): bad.append('node in wrong layer')
        idx=[x.get_index() for x in l]
        if len(idx)!=len(set(idx)): bad.append('duplicate (h,i)')
    return bad
c=collections.Counter(); first={}
for it in range(int(sys.argv[1])):
    rng=np.random.default_rng(it+300)
    name=ALGOS[it%len(ALGOS)]
    pk=rng.choice(['Bin','RBin']) if name=='VROOM' else rng.choice(list(PARTS))
    d=int(rng.integers(1,3)); n=int(rng.choice([100,150]))
    np.random.seed(it)
    a,params=mk(name,[[0.0,1.0]]*d,PARTS[pk],n,rng)
    R=rewards(rng.choice(['neg','tied','noisy','zero']),rng,n)
    led=[]
    for t in range(1,n+1):
        p=a.pull(t); a.receive_reward(t,float(R[t-1])); led.append((list(p),float(R[t-1])))
    lp=a.get_last_point()
    parts=[]
    if hasattr(a,'partition') and not isinstance(a.partition,type): parts=[a.partition]
    elif hasattr(a,'V_algo'): parts=[x.partition for x in a.V_algo]
    for P in parts:
        for b in struct(P): c[(name,b.split('(')[0])]+=1; first.setdefault((name,b.split('(')[0]),(pk,d))
    if name in('DOO','DOO_delta','SOO','SequOOL'):
        best=max(r for _,r in led)
        hit=[r for p,r in led if p==list(lp)]
        if not hit or max(hit)<best: c[(name,'C07 rec not best evaluated')]+=1
print(dict(c)); print(first)
