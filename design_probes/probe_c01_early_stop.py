from drv import *
import collections
fails=collections.Counter(); ex={}
rng=np.random.default_rng(5)
for it in range(1200):
    name=ALGOS[it%len(ALGOS)]
    pk=rng.choice(['Bin','RBin','DimBin','K2','K3','RK3']) if name!='VROOM' else rng.choice(['Bin','RBin'])
    d=int(rng.integers(1,3)); dom=[[0.0,1.0] for _ in range(d)]
    n=int(rng.choice([100,150,257,500,1000]))
    T=int(rng.choice([1,2,3,5,10,n//4,n//2,n-1]))
    np.random.seed(it)
    try:
        signal.alarm(60)
        a,params=mk(name,dom,PARTS[pk],n,rng)
        R=rng.normal(0,1,n)
        for t in range(1,T+1):
            p=a.pull(t); assert inbox(p,dom),('pull',p)
            a.receive_reward(t,float(R[t-1]))
        p=a.get_last_point(); assert inbox(p,dom),('last',p)
        signal.alarm(0)
    except TO: fails[(name,'TO')]+=1
    except Exception as e:
        signal.alarm(0)
        tb=traceback.extract_tb(e.__traceback__)[-1]
        k=(name,type(e).__name__,str(e)[:50],f"{tb.filename.split('/')[-1]}:{tb.lineno}")
        fails[k]+=1; ex.setdefault(k,[]).append((n,T,pk,params))
for k,v in fails.items(): print(v,k,sorted(set((n,T) for n,T,_,_ in ex[k]))[:12])
