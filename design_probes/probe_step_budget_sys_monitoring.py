import sys, time, numpy as np
from drv import *
mon=sys.monitoring; TID=mon.PROFILER_ID
class Budget(Exception): pass
cnt=[0]; LIM=[10**7]
def cb(code, off):
    if '/PyXAB/' not in code.co_filename: return mon.DISABLE
    cnt[0]+=1
    if cnt[0]>LIM[0]: raise Budget()
def on():
    mon.use_tool_id(TID,'steps'); mon.register_callback(TID,mon.events.PY_START,cb); mon.set_events(TID,mon.events.PY_START)
def off():
    mon.set_events(TID,0); mon.free_tool_id(TID)
def work(name,n):
    np.random.seed(0); rng=np.random.default_rng(0)
    a=mk(name,[[0.0,1.0]],PARTS['Bin'],n,rng)[0]; mx=0
    for t in range(1,n+1):
        cnt[0]=0; a.pull(t); mx=max(mx,cnt[0]); cnt[0]=0; a.receive_reward(t,0.5); mx=max(mx,cnt[0])
    cnt[0]=0; a.get_last_point(); mx=max(mx,cnt[0]); return mx
for name,n in [('T_HOO',1000),('HCT',1000),('VROOM',500),('SOO',500)]:
    t=time.time(); work(name,n); base=time.time()-t
    on(); t=time.time(); mx=work(name,n); w=time.time()-t; off()
    print(name,n,'base %.2fs monitored %.2fs max entries/call %d'%(base,w,mx))
# hang detection: SOO with exhausted cap
on(); LIM[0]=10**6
a=SOO(n=100,h_max=2,domain=[[0,1]],partition=BinaryPartition)
try:
    for t in range(1,101):
        cnt[0]=0; a.pull(t); a.receive_reward(t,0.1)
    print('no hang?')
except Budget: print('hang detected at t=',t,'after',cnt[0],'entries')
off()
