import numpy as np, math, warnings
from PyXAB.synthetic_obj import Garland,DoubleSine,DifficultFunc,Ackley,Himmelblau,Rastrigin,Cexample
rng=np.random.default_rng(0)
def pts1(lo,hi,special,n=200000):
    x=list(rng.uniform(lo,hi,n))+[lo,hi]
    for s in special:
        v=s
        for _ in range(60): x.append(v); v=np.nextafter(v,hi)
        v=s
        for _ in range(60): x.append(v); v=np.nextafter(v,lo)
        for e in range(-320,0,4): x+=[s+10.0**e,s-10.0**e]
    return [float(v) for v in x if lo<=v<=hi]
res={}
G=Garland.Garland(); m=max(G.f([x]) for x in pts1(0,1,[0.5,0.0,1.0])); res['Garland']=(m,G.fmax)
# fine grid for Garland max
xs=np.linspace(0.45,0.55,2000001); res['Garland_fine']=float(np.max(xs*(1-xs)*(4-np.sqrt(np.abs(np.sin(60*xs))))))
worst=-1e9
for _ in range(300):
    r1,r2,tm=rng.uniform(0.05,1),rng.uniform(0.05,1),rng.uniform(0,1)
    if rng.random()<.2: r1=rng.choice([0.05,1.0]); r2=rng.choice([0.05,1.0]); tm=rng.choice([0,1,0.5])
    D=DoubleSine.DoubleSine(rho1=r1,rho2=r2,tmax=tm)
    for x in pts1(0,1,[tm],2000):
        v=D.f([x]); assert math.isfinite(v),(r1,r2,tm,x)
        worst=max(worst,v)
    assert D.f([tm])==D.fmax
res['DoubleSine_max']=worst
F=DifficultFunc.DifficultFunc(); res['Difficult']=max(F.f([x]) for x in pts1(0,1,[0.5]))
A=Ackley.Ackley(); AN=Ackley.Ackley_Normalized()
P=[(float(a),float(b)) for a,b in rng.uniform(-1,1,(200000,2))]+[(a,b) for a in pts1(-1,1,[0.0],0)[:400] for b in (0.0,1e-300,-1e-17,1e-9)]
res['Ackley']=(max(A.f(list(p)) for p in P),A.f([0,0]),max(AN.f(list(p)) for p in P))
H=Himmelblau.Himmelblau(); res['Himmelblau']=(max(H.f(list(p)) for p in [(5*a,5*b) for a,b in P[:100000]]),H.f([3,2]))
R=Rastrigin.Rastrigin(); res['Rastrigin']=(max(R.f(list(p)) for p in P[:100000]+P[-1600:]),R.f([0,0,0]))
C=Cexample.Cexample(); res['Cexample']=(max(C.f([x]) for x in pts1(0,1/math.e,[0.0,1/math.e])),C.f([0]),C.f([5e-324]))
print(res)
