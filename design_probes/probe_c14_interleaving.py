from drv import *
import collections
A=[x for x in ALGOS if x!='VROOM']
res=collections.Counter()
for it in range(190):
    rng=np.random.default_rng(it+900)
    n1,n2=A[it%len(A)],A[int(rng.integers(len(A)))]
    pk=rng.choice(['Bin','DimBin','K2','K3','K4']); n=100
    dom=[[0.0,1.0]]
    R1=rng.normal(0,1,n); R2=rng.normal(0,1,n)
    def solo(name,R,seed):
        a=mk(name,[[0.0,1.0]],PARTS[pk],n,np.random.default_rng(seed))[0]; out=[]
        for t in range(1,n+1): out.append(list(a.pull(t))); a.receive_reward(t,float(R[t-1]))
        return out,list(a.get_last_point())
    s1=solo(n1,R1,1); s2=solo(n2,R2,2)
    a=mk(n1,[[0.0,1.0]],PARTS[pk],n,np.random.default_rng(1))[0]; b=mk(n2,[[0.0,1.0]],PARTS[pk],n,np.random.default_rng(2))[0]
    o1=[];o2=[];i=j=0
    while i<n or j<n:
        if j>=n or (i<n and rng.random()<0.5):
            o1.append(list(a.pull(i+1)));
            if rng.random()<.3 and j<n: o2.append(list(b.pull(j+1))); b.receive_reward(j+1,float(R2[j])); j+=1
            a.receive_reward(i+1,float(R1[i])); i+=1
        else:
            o2.append(list(b.pull(j+1))); b.receive_reward(j+1,float(R2[j])); j+=1
    ok=(o1,list(a.get_last_point()))==s1 and (o2,list(b.get_last_point()))==s2
    res[ok]+=1
    if not ok: print('DIFF',n1,n2,pk)
print(res)
