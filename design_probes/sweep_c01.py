# broad C01 sweep with continuous params, T<=n, get_last_point at end; fixed copy
import sys
from drv import *
import collections, warnings
warnings.simplefilter('ignore')
def mkc(name,dom,part,n,rng):
    nu=float(10**rng.uniform(-2,2)); rho=float(rng.uniform(0.02,0.98)); rhomax=float(rng.uniform(0.02,0.98))
    c=float(10**rng.uniform(-3,0.5)); delta=float(10**rng.uniform(-6,-0.01)); bound=float(10**rng.uniform(-2,1.5))
    B={'T_HOO':T_HOO,'HCT':HCT,'VHCT':VHCT}
    if name=='T_HOO': return T_HOO(nu=nu,rho=rho,rounds=n,domain=dom,partition=part), dict(nu=nu,rho=rho)
    if name=='HCT': return HCT(nu=nu,rho=rho,c=c,delta=delta,domain=dom,partition=part), dict(nu=nu,rho=rho,c=c,delta=delta)
    if name=='VHCT': return VHCT(nu=nu,rho=rho,c=c,delta=delta,bound=bound,domain=dom,partition=part), dict(nu=nu,rho=rho,c=c,delta=delta,bound=bound)
    if name.startswith('POO_'): return POO(numax=nu,rhomax=rhomax,rounds=n,domain=dom,partition=part,algo=B[name[4:]]), dict(nu=nu,rhomax=rhomax)
    if name.startswith('GPO_'): return GPO(numax=nu,rhomax=rhomax,rounds=n,domain=dom,partition=part,algo=B[name[4:]]), dict(nu=nu,rhomax=rhomax)
    if name=='PCT': return PCT(numax=nu,rhomax=rhomax,rounds=n,domain=dom,partition=part), dict(nu=nu,rhomax=rhomax)
    if name=='VPCT': return VPCT(numax=nu,rhomax=rhomax,rounds=n,domain=dom,partition=part), dict(nu=nu,rhomax=rhomax)
    if name=='StoSOO': 
        k=[None,1,2,5][int(rng.integers(4))]; dl=[None,0.01,0.5][int(rng.integers(3))]
        return StoSOO(n=n,k=k,h_max=n,delta=dl,domain=dom,partition=part), dict(k=k,delta=dl)
    if name=='VROOM':
        hm=int(rng.choice([1,3,math.floor(math.log2(n)),12,25])); b=float(10**rng.uniform(-2,1)); fm=float(10**rng.uniform(-1,2))
        return VROOM(n=n,h_max=hm,b=b,f_max=fm,domain=dom,partition=part), dict(h_max=hm,b=b,f_max=fm)
    if name=='Zooming': return Zooming(nu=nu,rho=rho,domain=dom,partition=part), dict(nu=nu,rho=rho)
    return mk(name,dom,part,n,rng)
lo,hi=int(sys.argv[1]),int(sys.argv[2])
fails=collections.Counter(); ex={}; slow=[]
import time
for it in range(lo,hi):
    rng=np.random.default_rng(it+10**6)
    name=ALGOS[it%len(ALGOS)]
    pk=rng.choice(['Bin','RBin','K2','RK2']) if name=='VROOM' else rng.choice(list(PARTS))
    d=int(rng.integers(1,4))
    dom=[]
    for _ in range(d):
        lo_=float(rng.choice([0,-1,10,-1e3,0.25,1e6,-1e-3])); w=float(10**rng.uniform(-6,6)); dom.append([lo_,lo_+w])
    n=int(rng.choice([100,101,128,200,333,500,1000,2000]))
    if name in('T_HOO','POO_T_HOO','GPO_T_HOO') and n>1000: n=1000
    T=n if rng.random()<.6 else int(rng.integers(max(1,n//2),n+1))
    kind=rng.choice(['neg','const','zero','tied','noisy','large','unit'])
    np.random.seed(it)
    key=None; params=None; t0=time.time()
    try:
        signal.alarm(300)
        a,params=mkc(name,dom,PARTS[pk],n,rng)
        R=rewards(kind,rng,n)
        for t in range(1,T+1):
            p=a.pull(t)
            if not inbox(p,dom): key=(name,'pull-out-of-box',repr(p)[:60]); break
            a.receive_reward(t,float(R[t-1]))
        if key is None:
            p=a.get_last_point()
            if not inbox(p,dom): key=(name,'last-out-of-box',repr(p)[:60])
        signal.alarm(0)
    except TO: key=(name,'TIMEOUT')
    except Exception as e:
        signal.alarm(0)
        tb=traceback.extract_tb(e.__traceback__)[-1]
        key=(name,type(e).__name__,str(e)[:60],f"{tb.filename.split('/')[-1]}:{tb.lineno}")
    el=time.time()-t0
    if el>20: slow.append((name,pk,d,n,round(el,1)))
    if key: fails[key]+=1; ex.setdefault(key,[]).append((it,pk,d,n,T,kind,params))
print('range',lo,hi)
for k,v in sorted(fails.items(),key=str): print(v,k,ex[k][:3])
print('slow',slow)
