from drv import *
import warnings; warnings.simplefilter('ignore')
import collections
fails=collections.Counter()
rng=np.random.default_rng(7)
for mag in (1e100,1e200,1e308):
  for it in range(190):
    name=ALGOS[it%len(ALGOS)]
    pk='Bin'; dom=[[0.0,1.0]]; n=100
    np.random.seed(it)
    try:
        signal.alarm(60)
        a,params=mk(name,dom,PARTS[pk],n,rng)
        R=rng.choice([-1,1,0.5],size=n)*mag
        for t in range(1,n+1):
            p=a.pull(t); assert inbox(p,dom),('pull',p)
            a.receive_reward(t,float(R[t-1]))
        p=a.get_last_point(); assert inbox(p,dom),('last',p)
        signal.alarm(0)
    except TO: fails[(mag,name,'TO')]+=1
    except Exception as e:
        signal.alarm(0)
        tb=traceback.extract_tb(e.__traceback__)[-1]
        fails[(mag,name,type(e).__name__,str(e)[:50],f"{tb.filename.split('/')[-1]}:{tb.lineno}")]+=1
for k,v in fails.items(): print(v,k)
