import numpy as np, sys
from drv import *
def reach(root):
    out=[];st=[root]
    while st:
        x=st.pop(); out.append(x)
        if x.get_children(): st.extend(x.get_children())
    return out
for name in ['HCT','VHCT','T_HOO']:
  for pk in ['Bin','K3']:
    bad=0; runs=0; first=None
    for seed in range(40):
        rng=np.random.default_rng(seed); np.random.seed(seed)
        a,params=mk(name,[[0,1]],PARTS[pk],300,rng)
        part=a.partition
        orig=part.make_children; log=[]
        def mc(parent,newlayer=False,orig=orig,log=log):
            log.append((parent.depth,parent.index,parent.get_children() is not None, getattr(parent,'visited_times',None)))
            return orig(parent,newlayer=newlayer)
        part.make_children=mc
        R=rng.normal(0,1,300)
        for t in range(1,301):
            a.pull(t); a.receive_reward(t,float(R[t-1]))
        runs+=1
        re=[l for l in log if l[2]]
        nl=sum(len(l) for l in part.get_node_list()); rc=len(reach(part.get_root()))
        tot=sum(n.visited_times for n in reach(part.get_root())) if name!='T_HOO' else part.get_root().visited_times
        if re or nl!=rc or tot!=300:
            bad+=1
            if first is None: first=(seed,params,re[:3],nl,rc,tot)
    print(name,pk,'bad',bad,'/',runs,first)
