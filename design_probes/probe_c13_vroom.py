from drv import *
import collections
def vroom(seed,pk,d,n,hcap,rk):
    rng=np.random.default_rng(seed); np.random.seed(seed)
    dom=[[-2.0,2.0]]*d; b=1.0; fmax=1.0
    a=VROOM(n=n,h_max=hcap,b=b,f_max=fmax,domain=dom,partition=PARTS[pk]); part=a.partition
    sd=math.floor(math.log2(n)); delta=4*b/(fmax*math.sqrt(n))
    C=sum(1/(h*l) for h in range(1,sd+1) for l in range(1,2**h+1))
    led=collections.defaultdict(list); bad=[]
    calls=[]
    orig=np.random.choice
    def ch(aa,p=None,**k):
        s=orig(aa,p=p,**k); calls.append((list(aa),list(p),s)); return s
    R=rewards(rk,rng,n)
    eff=min(hcap,n)
    for t in range(1,n+1):
        np.random.choice=ch; calls.clear()
        try: pt=a.pull(t)
        finally: np.random.choice=orig
        nl=part.get_node_list()
        if len(calls)!=1: bad.append(('choice calls',len(calls))); break
        aa,p,s=calls[0]
        idx=[(h,l) for h in range(1,sd+1) for l in range(len(nl[h]))]
        if aa!=list(range(len(idx))): bad.append(('support',))
        def lcb(x):
            r=led[id(x)]
            return -math.inf if not r else sum(r)/len(r)-math.sqrt(math.log(4*n**3/delta)/(2*len(r)))
        exp=[]
        for h in range(1,sd+1):
            ranks=[x.get_rank()[-1] for x in nl[h]]
            if sorted(ranks)!=list(range(1,2**h+1)): bad.append(('ranks not a permutation',h))
            order=sorted(range(len(ranks)),key=lambda i:ranks[i])
            for i,j in zip(order,order[1:]):
                if lcb(nl[h][i])<lcb(nl[h][j])-1e-12: bad.append(('rank not monotone in lcb',h))
            exp+= [1/(h*r*C) for r in ranks]
        if any(abs(x-y)>1e-12 for x,y in zip(p,exp)) or len(p)!=len(exp): bad.append(('prob vector',))
        if abs(sum(p)-1)>1e-9: bad.append(('sum',sum(p)))
        cn=a.curr_node
        if cn is not nl[idx[s][0]][idx[s][1]]: bad.append(('drawn cell != sampled index',))
        ul=a.update_list
        if ul[0] is not cn: bad.append(('chain start',))
        for x,y in zip(ul,ul[1:]):
            if y.get_parent() is not x or y not in x.get_children(): bad.append(('chain',))
        if len(ul)!=max(0,eff-cn.get_depth())+1: bad.append(('chain length',len(ul),eff,cn.get_depth()))
        for x in (cn,ul[-1]):
            if not all(lo<=v<=hi for v,(lo,hi) in zip(pt,x.get_domain())): bad.append(('point outside cell',))
        before={id(x):len(x.reward) for l in nl for x in l}
        r=float(R[t-1]); a.receive_reward(t,r)
        for x in ul: led[id(x)].append(r)
        for l in part.get_node_list():
            for x in l:
                if list(x.reward)!=led[id(x)]: bad.append(('C04 credit',x.get_depth())); break
        if len(bad)>3: break
    return bad,(sd,part.get_depth())
c=collections.Counter(); first={}; info=[]
for seed in range(40):
    rng=np.random.default_rng(seed+3)
    pk=rng.choice(['Bin','RBin','K2','RK2']); d=int(rng.integers(1,3)); rk=rng.choice(['neg','const','tied','noisy','unit']); n=int(rng.choice([100,128,200]))
    bad,i=vroom(seed,pk,d,n,int(rng.choice([3,math.floor(math.log2(n)),12,n+5])) if seed%2 else 9,rk); info.append(i)
    for b in bad: c[b[0]]+=1; first.setdefault(b[0],(seed,pk,d,rk,n,b))
print(dict(c),info[:8]); print(first)
