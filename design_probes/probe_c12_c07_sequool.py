from drv import *
import collections
def seq(seed,pk,d,n,rk,extra=10):
    rng=np.random.default_rng(seed); np.random.seed(seed)
    dom=[[-2.0,2.0]]*d
    a=SequOOL(n=n,domain=dom,partition=PARTS[pk]); part=a.partition
    Hn=sum(1/i for i in range(1,n+1)); hmax=math.floor(n/Hn)
    bad=[]; opens=[]; led={}; bycp={}
    orig=part.make_children
    cur={'open':None,'i':0}
    opened=set()
    def mc(parent,newlayer=False):
        X=parent
        if cur['open'] is not None and cur['i']!=len(cur['open'].get_children()): bad.append(('opened before previous children all evaluated',))
        if id(X) in opened: bad.append(('reopened',))
        h=X.get_depth()
        if h>hmax: bad.append(('open beyond hmax',h,hmax))
        if opens and not (opens[-1]<=h<=opens[-1]+1): bad.append(('depth order',opens[-1],h))
        if h>=1:
            if sum(1 for x in opens if x==h)+1>math.floor(hmax/h): bad.append(('budget exceeded',h))
            cands=[y for y in part.get_node_list()[h] if id(y) not in opened]
            if any(id(y) not in led for y in cands): bad.append(('unevaluated cell at current depth',))
            else:
                best=max(led[id(y)][0] for y in cands)
                if led[id(X)][0]<best: bad.append(('not best unopened',led[id(X)][0],best))
        opens.append(h); opened.add(id(X))
        orig(parent,newlayer=newlayer)
        for c in X.get_children(): bycp[id(c.get_cpoint())]=c
        cur['open']=X; cur['i']=0
    part.make_children=mc
    R=rewards(rk,rng,n+extra)
    exhausted=False; rec_at_exh=None
    for t in range(1,n+extra+1):
        p=a.pull(t)
        X=bycp.get(id(p))
        if X is None:
            if p==part.get_root().get_cpoint():
                if not exhausted: exhausted=True; rec_at_exh=a.get_last_point()
            else: bad.append(('unknown point',t)); break
        else:
            if exhausted: bad.append(('search pull after exhaustion',))
            if id(X) in led: bad.append(('evaluated twice',))
            if cur['open'] is None or X is not cur['open'].get_children()[cur['i']]: bad.append(('child order',))
            cur['i']+=1
            led[id(X)]=[float(R[t-1]),X]
        a.receive_reward(t,float(R[t-1]))
        if len(bad)>3: break
    lp=a.get_last_point()
    if exhausted and lp is not rec_at_exh: bad.append(('recommendation changed after exhaustion',))
    best=max(v[0] for v in led.values())
    hit=[v for v in led.values() if v[1].get_cpoint() is lp]
    if not hit or hit[0][0]<best: bad.append(('C07 recommendation not best evaluated',))
    return bad,(hmax,opens.count(1),max(opens),exhausted,len(led))
c=collections.Counter(); info=[]; first={}
for seed in range(80):
    rng=np.random.default_rng(seed+7)
    pk=rng.choice(list(PARTS)); d=int(rng.integers(1,3)); rk=rng.choice(['neg','const','zero','tied','noisy','unit'])
    bad,i=seq(seed,pk,d,int(rng.choice([10,30,100,150,400])),rk); info.append(i)
    for b in bad: c[b[0]]+=1; first.setdefault(b[0],(seed,pk,d,rk,b))
print(dict(c),info[:8]); print(first)
