"""prototype reference monitor for T_HOO / HCT / VHCT (C04/C05/C06)"""
import math, numpy as np
from drv import *

def close(a,b,rt=1e-9,at=1e-12):
    if a==b: return True
    if math.isinf(a) or math.isinf(b): return False
    return abs(a-b)<=at+rt*max(abs(a),abs(b))
def tplus(i): 
    k=0
    while (1<<k)<i: k+=1
    return 1<<k
def near_int(x): return abs(x-round(x))<=1e-9*max(1.0,abs(x))
def ceil_opts(x):
    if near_int(x): return {round(x), round(x)+1} if False else {int(round(x))-0, int(round(x))+ (1 if x>round(x) else 0), int(round(x))+1 if False else int(round(x))}
    return {math.ceil(x)}

class Mon:
    def __init__(s, kind, algo, P):
        s.kind=kind; s.a=algo; s.P=P; s.part=algo.partition
        s.hist={}  # id(node)-> list of rewards
        s.nodes={}; s.bycp={}
        s.events=[]; s.viol=[]
        s.urefresh={}  # id(node) -> counter value r at last refresh
        s.rounds=0
        for layer in s.part.get_node_list():
            for n in layer: s.reg(n)
        orig=s.part.make_children
        def mc(parent,newlayer=False):
            was_leaf=parent.get_children() is None
            orig(parent,newlayer=newlayer)
            for c in parent.get_children(): s.reg(c)
            s.events.append((parent,was_leaf))
        s.part.make_children=mc
    def reg(s,n):
        s.nodes[id(n)]=n; s.bycp[id(n.get_cpoint())]=n; s.hist.setdefault(id(n),[])
    def V(s,*m): s.viol.append((s.rounds,)+m)
    def dt(s,tp): return min(1.0, s.P['c1']*s.P['delta']/tp)
    def U(s,n,tp=None):
        r=s.hist[id(n)]; T=len(r)
        if T==0: return math.inf
        mean=math.fsum(r)/T; h=n.get_depth(); P=s.P
        if s.kind=='T_HOO': return mean+math.sqrt(2*math.log(P['n'])/T)+P['nu']*P['rho']**h
        L=math.log(1/s.dt(tp))
        if s.kind=='HCT': return mean+P['nu']*P['rho']**h+P['c']*math.sqrt(L/T)
        var=max(math.fsum((x-mean)**2 for x in r)/T,1e-3)
        return mean+math.sqrt(2*P['c']**2*var*L/T)+3*P['bound']*P['c']**2*L/T+P['nu']*P['rho']**h
    def tau(s,n,tp,r=None):
        P=s.P;h=n.get_depth()
        if h==0: return 0.0
        L=math.log(1/min(0.5,P['c1']*P['delta']/tp))
        base=P['c']**2*L*P['rho']**(-2*h)/P['nu']**2
        if s.kind=='VHCT':
            r=s.hist[id(n)] if r is None else r
            if len(r)==0: var=1e-3
            else:
                m=math.fsum(r)/len(r); var=max(math.fsum((x-m)**2 for x in r)/len(r),1e-3)
            b=P['bound']; base*= var+3*b*P['nu']*P['rho']**h+var*math.sqrt(1+6*b*P['nu']*P['rho']**h/var)
        return base
    def path_of(s,n):
        p=[]
        while n is not None: p.append(n); n=n.get_parent()
        return p[::-1]
    def on_pull(s,point):
        n=s.bycp.get(id(point))
        if n is None: s.V('pull returned a point that is not the representative object of any cell'); return
        s.pulled=n
        path=s.path_of(n)
        i=s.rounds+1  # HCT counter value
        # greedy check
        for par,ch in zip(path,path[1:]):
            if ch not in par.get_children(): s.V('path step not a child')
            mb=max(c.get_b_value() for c in par.get_children())
            if not (ch.get_b_value()>=mb or close(ch.get_b_value(),mb)): s.V('not max B child',ch.get_depth(),ch.get_index(),ch.get_b_value(),mb)
            if s.kind!='T_HOO' and par.get_depth()>0:
                x=s.tau(par,tplus(i))
                if not near_int(x) and len(s.hist[id(par)])<math.ceil(x): s.V('passed through cell below threshold',par.get_depth(),len(s.hist[id(par)]),x)
        if s.kind=='T_HOO':
            if n.get_children() is not None: s.V('pulled non-leaf')
        else:
            if n.get_children() is not None:
                x=s.tau(n,tplus(i))
                if not near_int(x) and len(s.hist[id(n)])>=math.ceil(x): s.V('stopped at internal cell that reached threshold',n.get_depth(),len(s.hist[id(n)]),x)
        s.events.clear()
    def on_reward(s,reward):
        n=s.pulled; i=s.rounds+1
        pre_r=list(s.hist[id(n)])
        credited=s.path_of(n) if s.kind=='T_HOO' else [n]
        for c in credited: s.hist[id(c)].append(reward)
        s.rounds+=1
        # refresh bookkeeping (HCT/VHCT)
        if s.kind!='T_HOO':
            if i==tplus(i):
                for k in s.nodes: s.urefresh[k]=('g',i)
            s.urefresh[id(n)]=('p',i)
        # C04: counts & lists
        tot=0
        allnodes=[x for layer in s.part.get_node_list() for x in layer]
        for x in allnodes:
            h=s.hist[id(x)]
            if x.get_visited_times()!=len(h) or list(x.rewards)!=h: s.V('C04 counts/list mismatch',x.get_depth(),x.get_index(),x.get_visited_times(),len(h))
            if len(h) and not close(x.get_mean_reward(),math.fsum(h)/len(h)): s.V('C04 mean')
        if s.kind=='T_HOO':
            if s.part.get_root().get_visited_times()!=s.rounds: s.V('root count')
        else:
            if sum(x.get_visited_times() for x in allnodes)!=s.rounds: s.V('sum counts != rounds')
        # C05: U and B
        for x in allnodes:
            if s.kind=='T_HOO': ok=close(x.get_u_value(),s.U(x))
            else:
                kind_,r=s.urefresh.get(id(x),('n',None))
                if len(s.hist[id(x)])==0: ok = x.get_u_value()==math.inf
                else:
                    cands=[tplus(r)] if kind_=='g' else [tplus(r),tplus(r+1)]
                    # history at time of refresh == current history (a node's history changes only when pulled -> refresh)
                    ok=any(close(x.get_u_value(),s.U(x,tp)) for tp in cands)
            if not ok: s.V('C05 U mismatch',x.get_depth(),x.get_index(),x.get_u_value(),s.urefresh.get(id(x)))
        # B recursion at quiescent point: note expansion happens AFTER backward pass in HCT -> nodes just expanded have B=U
        newpar={id(p) for p,_ in s.events}
        for layer in reversed(s.part.get_node_list()[1:]):
            for x in layer:
                ch=x.get_children()
                if ch is None or (s.kind!='T_HOO' and id(x) in newpar): exp=x.get_u_value()
                else: exp=min(x.get_u_value(),max(c.get_b_value() for c in ch))
                if not close(x.get_b_value(),exp): s.V('C05 B mismatch',x.get_depth(),x.get_index(),x.get_b_value(),exp)
        # C06 expansion rule
        if len(s.events)>1: s.V('C06 more than one expansion')
        for p,was_leaf in s.events:
            if p is not n: s.V('C06 expanded other than pulled cell')
            if not was_leaf: s.V('C06 expanded a non-leaf',p.get_depth(),p.get_index())
            for c in p.get_children():
                if c.get_visited_times()!=0 or c.get_u_value()!=math.inf or c.get_b_value()!=math.inf: s.V('C06 new child not fresh')
        expanded=bool(s.events)
        if s.kind=='T_HOO':
            P=s.P; x=(math.log(P['n'])/2-math.log(1/P['nu']))/math.log(1/P['rho'])
            if not near_int(x):
                want = n.get_depth()<=math.ceil(x)
                if want!=expanded: s.V('C06 T-HOO expansion decision',n.get_depth(),x,expanded)
                if s.part.get_depth()>max(1,math.ceil(x)+1): s.V('C06 depth bound',s.part.get_depth(),x)
        else:
            was_leaf = (not expanded and n.get_children() is None) or (expanded and s.events[0][1])
            opts=set()
            for tp in (tplus(i),tplus(i+1)):
                for rr in ((pre_r,s.hist[id(n)]) if s.kind=='VHCT' else (None,)):
                    x=s.tau(n,tp,rr)
                    if near_int(x): opts|={True,False}
                    else: opts.add(was_leaf and len(s.hist[id(n)])>=math.ceil(x))
            if expanded not in opts: s.V('C06 HCT expansion decision',n.get_depth(),len(s.hist[id(n)]),expanded,opts)

def run(kind,seed,n=300,pk='Bin',d=1,rk='noisy'):
    rng=np.random.default_rng(seed); np.random.seed(seed)
    nu=float(rng.choice([0.1,0.5,1,2,10])); rho=float(rng.choice([0.1,0.3,0.5,0.7,0.9])); c=float(rng.choice([0.01,0.1,0.5,1])); delta=float(rng.choice([1e-4,0.01,0.1,0.3])); bound=float(rng.choice([0.1,1,5]))
    dom=[[0.0,1.0]]*d
    P=dict(nu=nu,rho=rho,c=c,delta=delta,bound=bound,n=n,c1=(rho/(3*nu))**(1/8))
    if P['c1']*delta>0.5: return None
    if kind=='T_HOO': a=T_HOO(nu=nu,rho=rho,rounds=n,domain=dom,partition=PARTS[pk])
    elif kind=='HCT': a=HCT(nu=nu,rho=rho,c=c,delta=delta,domain=dom,partition=PARTS[pk])
    else: a=VHCT(nu=nu,rho=rho,c=c,delta=delta,bound=bound,domain=dom,partition=PARTS[pk])
    m=Mon(kind,a,P)
    R=rewards(rk,rng,n)
    for t in range(1,n+1):
        p=a.pull(t); m.on_pull(p)
        a.receive_reward(t,float(R[t-1])); m.on_reward(float(R[t-1]))
        if len(m.viol)>5: break
    return m,P

if __name__=='__main__':
    import collections
    for kind in ['T_HOO','HCT','VHCT']:
        cnt=collections.Counter(); first={}; runs=0; depth=[]
        for seed in range(int(sys.argv[1]) if len(sys.argv)>1 else 60):
            rng=np.random.default_rng(1000+seed)
            pk=rng.choice(['Bin','RBin','DimBin','K3','RK3','K4']); d=int(rng.integers(1,3)); rk=rng.choice(['neg','const','zero','tied','noisy','large','unit'])
            r=run(kind,seed,n=int(rng.choice([100,200,300])),pk=pk,d=d,rk=rk)
            if r is None: continue
            m,P=r; runs+=1; depth.append(m.part.get_depth())
            for v in m.viol:
                cnt[v[1]]+=1; first.setdefault(v[1],(seed,pk,d,rk,P,v))
        print(kind,'runs',runs,'maxdepth',max(depth),dict(cnt))
        for k,v in first.items(): print('   ',k,v)
