from drv import *
def leaves(root):
    out=[];st=[root]
    while st:
        x=st.pop()
        if x.get_children(): st.extend(x.get_children())
        else: out.append(x)
    return out
def zoom(seed,pk,d,n=300):
    rng=np.random.default_rng(seed); np.random.seed(seed)
    nu=float(rng.choice([0.5,1,2,10])); rho=float(rng.choice([0.5,0.7,0.9]))
    dom=[[-1.0,3.0]]*d
    a=Zooming(nu=nu,rho=rho,domain=dom,partition=PARTS[pk])
    part=a.partition; ev=[]
    orig=part.make_children
    def mc(parent,newlayer=False): ev.append(parent); return orig(parent,newlayer=newlayer)
    part.make_children=mc
    led={}; phase=1; nend=2; time=0; bad=[]
    for t in range(1,n+1):
        p=a.pull(t)
        arms={id(k.get_point()):k for k in a.active_points}
        if id(p) not in arms: bad.append((t,'pulled point not an active arm')); break
        # index check
        def idx(k):
            h=led.get(id(k.get_point()),[]); m=sum(h)/len(h) if h else 0
            return m+2*math.sqrt(8*phase/(2+len(h)))
        best=max(idx(k) for k in a.active_points)
        if idx(arms[id(p)])<best-1e-9*max(1,abs(best)): bad.append((t,'not max index',idx(arms[id(p)]),best))
        arm=arms[id(p)]; cell=a.active_points[arm]
        r=float(rng.normal()); ev.clear()
        a.receive_reward(t,r)
        led.setdefault(id(p),[]).append(r); time+=1
        if time>=nend: phase+=1; nend+=2**phase
        h=led[id(p)]
        if a.pulled_times[arm]!=len(h) or abs(a.average_rewards[arm]-sum(h)/len(h))>1e-9: bad.append((t,'stats'))
        rad=math.sqrt(8*phase/(2+len(h))); thr=nu*rho**cell.get_depth()
        if abs(rad-thr)>1e-9 and (rad<=thr)!=(len(ev)==1): bad.append((t,'refine rule',rad,thr,len(ev)))
        if ev and ev[0] is not cell: bad.append((t,'refined other cell'))
        # containment + coverage
        act=set(map(id,a.active_points.values()))
        for k,c in a.active_points.items():
            if not all(lo<=x<=hi for x,(lo,hi) in zip(k.get_point(),c.get_domain())): bad.append((t,'arm outside its cell'))
        for L in leaves(part.get_root()):
            x=L
            while x is not None and id(x) not in act: x=x.get_parent()
            if x is None: bad.append((t,'leaf uncovered',L.get_depth(),L.get_index(),L.get_domain())); break
        if len(bad)>2: break
    return bad,len(a.active_points),part.get_depth()
import collections
for pk in ['Bin','RBin','DimBin','K3','K4','RK3']:
    c=collections.Counter(); info=[]
    for seed in range(20):
        bad,na,dp=zoom(seed,pk,1+seed%2)
        info.append((na,dp))
        for b in bad: c[b[1]]+=1
    print(pk,dict(c),info[:5])
