import numpy as np, math, sys, traceback, signal, collections, functools
from PyXAB.partition.BinaryPartition import BinaryPartition
from PyXAB.partition.RandomBinaryPartition import RandomBinaryPartition
from PyXAB.partition.DimensionBinaryPartition import DimensionBinaryPartition
from PyXAB.partition.KaryPartition import KaryPartition
from PyXAB.partition.RandomKaryPartition import RandomKaryPartition
from PyXAB.algos.HOO import T_HOO
from PyXAB.algos.HCT import HCT
from PyXAB.algos.VHCT import VHCT
from PyXAB.algos.POO import POO
from PyXAB.algos.GPO import GPO
from PyXAB.algos.PCT import PCT
from PyXAB.algos.VPCT import VPCT
from PyXAB.algos.DOO import DOO
from PyXAB.algos.SOO import SOO
from PyXAB.algos.StoSOO import StoSOO
from PyXAB.algos.SequOOL import SequOOL
from PyXAB.algos.StroquOOL import StroquOOL
from PyXAB.algos.VROOM import VROOM
from PyXAB.algos.Zooming import Zooming

def kary(K, base):
    class _P(base):
        def __init__(self, domain=None, node=None):
            super().__init__(domain=domain, K=K, node=node) if node is not None else super().__init__(domain=domain, K=K)
    _P.__name__ = f"{base.__name__}{K}"
    return _P
PARTS = {'Bin':BinaryPartition,'RBin':RandomBinaryPartition,'DimBin':DimensionBinaryPartition}
for K in (2,3,4,5):
    PARTS[f'K{K}']=kary(K,KaryPartition); PARTS[f'RK{K}']=kary(K,RandomKaryPartition)

def mk(name, dom, part, n, rng):
    nu = float(rng.choice([0.1,0.5,1,2,10])); rho=float(rng.choice([0.1,0.3,0.5,0.7,0.9]))
    rhomax=float(rng.choice([0.3,0.5,0.7,0.84,0.9,0.95]))
    if name=='T_HOO': return T_HOO(nu=nu,rho=rho,rounds=n,domain=dom,partition=part), dict(nu=nu,rho=rho)
    if name=='HCT': return HCT(nu=nu,rho=rho,domain=dom,partition=part), dict(nu=nu,rho=rho)
    if name=='VHCT': return VHCT(nu=nu,rho=rho,domain=dom,partition=part), dict(nu=nu,rho=rho)
    if name.startswith('POO_'): return POO(numax=nu,rhomax=rhomax,rounds=n,domain=dom,partition=part,algo={'T_HOO':T_HOO,'HCT':HCT,'VHCT':VHCT}[name[4:]]), dict(nu=nu,rhomax=rhomax)
    if name.startswith('GPO_'): return GPO(numax=nu,rhomax=rhomax,rounds=n,domain=dom,partition=part,algo={'T_HOO':T_HOO,'HCT':HCT,'VHCT':VHCT}[name[4:]]), dict(nu=nu,rhomax=rhomax)
    if name=='PCT': return PCT(numax=nu,rhomax=rhomax,rounds=n,domain=dom,partition=part), dict(nu=nu,rhomax=rhomax)
    if name=='VPCT': return VPCT(numax=nu,rhomax=rhomax,rounds=n,domain=dom,partition=part), dict(nu=nu,rhomax=rhomax)
    if name=='DOO': return DOO(n=n,domain=dom,partition=part), {}
    if name=='DOO_delta': return DOO(n=n,delta=lambda h: 2.0**-h,domain=dom,partition=part), {'delta':'user'}
    if name=='SOO': return SOO(n=n,h_max=n,domain=dom,partition=part), {}
    if name=='StoSOO': return StoSOO(n=n,h_max=n,domain=dom,partition=part), {}
    if name=='SequOOL': return SequOOL(n=n,domain=dom,partition=part), {}
    if name=='StroquOOL': return StroquOOL(n=n,domain=dom,partition=part), {}
    if name=='VROOM': return VROOM(n=n,h_max=int(rng.choice([3,math.floor(math.log2(n)),20,n+5])),b=1.0,f_max=1.0,domain=dom,partition=part), {}
    if name=='Zooming': return Zooming(nu=nu,rho=rho,domain=dom,partition=part), dict(nu=nu,rho=rho)
    raise KeyError(name)
ALGOS=['T_HOO','HCT','VHCT','POO_T_HOO','POO_HCT','POO_VHCT','GPO_T_HOO','GPO_HCT','GPO_VHCT','PCT','VPCT','DOO','DOO_delta','SOO','StoSOO','SequOOL','StroquOOL','VROOM','Zooming']

def rewards(kind, rng, n):
    if kind=='neg': return -rng.random(n)-0.1
    if kind=='const': return np.full(n, 0.3)
    if kind=='zero': return np.zeros(n)
    if kind=='tied': return rng.choice([0.0,1.0,-1.0], size=n)
    if kind=='noisy': return rng.normal(0,1,n)
    if kind=='large': return rng.normal(0,1,n)*1e6
    if kind=='unit': return rng.random(n)
class TO(Exception): pass
def handler(s,f): raise TO()
signal.signal(signal.SIGALRM, handler)

def inbox(p, dom):
    return isinstance(p,(list,tuple)) and len(p)==len(dom) and all(isinstance(x,(int,float,np.floating)) and math.isfinite(x) and lo<=x<=hi for x,(lo,hi) in zip(p,dom))

if __name__=='__main__':
    seed=int(sys.argv[1]) if len(sys.argv)>1 else 0
    rng=np.random.default_rng(seed)
    fails=collections.Counter(); ex={}
    total=0
    for it in range(int(sys.argv[2]) if len(sys.argv)>2 else 300):
        name=ALGOS[it%len(ALGOS)]
        pk=rng.choice(list(PARTS)); part=PARTS[pk]
        d=int(rng.integers(1,4))
        dom=[]
        for _ in range(d):
            lo=float(rng.choice([0,-1,-5,10,-1e3,0.25])); w=float(rng.choice([1,2,0.5,10,1e-3,3.7]))
            dom.append([lo,lo+w])
        n=int(rng.choice([100,128,150,257,500]))
        kind=rng.choice(['neg','const','zero','tied','noisy','large','unit'])
        np.random.seed(int(rng.integers(1<<30)))
        total+=1
        key=None
        try:
            signal.alarm(60)
            a,params=mk(name,dom,part,n,rng)
            R=rewards(kind,rng,n)
            for t in range(1,n+1):
                p=a.pull(t)
                if not inbox(p,dom): key=(name,'pull-out-of-box',pk if name=='VROOM' else '', repr(p)[:40]); break
                a.receive_reward(t,float(R[t-1]))
            if key is None:
                p=a.get_last_point()
                if not inbox(p,dom): key=(name,'last-out-of-box',repr(p)[:40])
            signal.alarm(0)
        except TO:
            key=(name,'TIMEOUT',pk)
        except Exception as e:
            signal.alarm(0)
            tb=traceback.extract_tb(e.__traceback__)[-1]
            key=(name,type(e).__name__,str(e)[:60],f"{tb.filename.split('/')[-1]}:{tb.lineno}")
        if key:
            fails[key]+=1; ex.setdefault(key,(pk,dom,n,kind,params if 'params' in dir() else None))
    print('total',total)
    for k,v in sorted(fails.items(), key=lambda kv:str(kv[0])): print(v,k,ex[k])
