from drv import *
import collections
log=[]
class HCTs:
    def __init__(s,nu=None,rho=None,domain=None,partition=None): s.i=sum(1 for e in log if e[0]=='new'); log.append(('new',s.i,nu,rho)); s.k=0
    def pull(s,time): s.k+=1; log.append(('pull',s.i)); return [s.i+s.k/1e6]
    def receive_reward(s,t,r): log.append(('rew',s.i,r))
HCTs.__name__='HCT'
bad=[]; cases=0; L=collections.Counter()
for n in (100,333,1000,3000):
    for rm in [0.02+0.96*j/59 for j in range(60)]:
        log.clear()
        g=POO(numax=2.0,rhomax=rm,rounds=n,domain=[[0,1]],algo=HCTs)
        led=collections.defaultdict(list); Ncur=2; seen=set()
        for t in range(1,n+1):
            Nbefore=g.N
            l0=len(log); p=g.pull(t); ev=log[l0:]
            news=[e for e in ev if e[0]=='new']; pulls=[e for e in ev if e[0]=='pull']
            for e in news:
                rho=e[3]; ok=False
                for i in range(0,int(Nbefore)):
                    if abs(rho-rm**(2*Nbefore/(2*i+1)))<=1e-12*rho: ok=True
                if not ok or not (0<rho<rm) or rho in seen or e[2]!=2.0: bad.append((n,rm,t,'rho',rho,Nbefore))
                seen.add(rho)
            if len(pulls)!=1: bad.append((n,rm,t,'pulls',ev))
            l1=len(log); r=float(np.sin(t)*3); g.receive_reward(t,r); ev=log[l1:]
            if ev!=[('rew',pulls[0][1],r)]: bad.append((n,rm,t,'rew',ev))
            led[pulls[0][1]].append(r)
            for j,(v,c) in enumerate(zip(g.V_reward,g.Times)):
                h=led[j]
                if c!=len(h) or (h and abs(v-np.mean(h))>1e-9): bad.append((n,rm,t,'score',j,v,c,len(h)))
            if len(bad)>3: break
        l0=len(log); lp=g.get_last_point(); ev=log[l0:]
        m=[np.mean(led[j]) for j in range(len(g.V_algo))]
        if len(ev)!=1 or ev[0][0]!='pull' or m[ev[0][1]]<max(m)-1e-12: bad.append((n,rm,'last',ev))
        cases+=1; L[len(g.V_algo)]+=1
        if len(bad)>3: break
    if len(bad)>3: break
print('cases',cases,'learner-count histogram',sorted(L.items())[:12],'bad',bad[:3])
