from drv import *
import collections, copy
def mk2(name,dom,part,n,seed):
    rng=np.random.default_rng(seed)
    return mk(name,dom,part,n,rng)[0]
def run(name,dom,pk,n,seed,R,t0=1,queries=(),npseed=0,T=None):
    np.random.seed(npseed)
    a=mk2(name,dom,PARTS[pk],n,seed)
    pts=[]
    for i in range(T or n):
        p=a.pull(t0+i); pts.append(list(p)); a.receive_reward(t0+i,float(R[i]))
        if i in queries: a.get_last_point()
    return pts, list(a.get_last_point())
A=[x for x in ALGOS if x!='DOO_delta']+['DOO_delta']
res=collections.Counter(); first={}
for it in range(int(sys.argv[1])):
    rng=np.random.default_rng(it+500)
    name=A[it%len(A)]
    pk=rng.choice(['Bin','RBin']) if name=='VROOM' else rng.choice(list(PARTS))
    d=int(rng.integers(1,3)); n=int(rng.choice([100,128,200]))
    dom=[[0.0,1.0] for _ in range(d)]
    R=rewards(rng.choice(['neg','tied','noisy','unit']),rng,n)
    seed=it
    def rec(k,ok,info=None):
        res[(k,name,ok)]+=1
        if not ok: first.setdefault((k,name),(pk,d,n,info))
    try:
        signal.alarm(120)
        base=run(name,dom,pk,n,seed,R)
        # C14 determinism
        again=run(name,dom,pk,n,seed,R)
        rec('C14det',base==again)
        dom2=copy.deepcopy(dom); run(name,dom2,pk,n,seed,R); rec('C14dom',dom2==dom)
        # C15 time labels
        if name not in('StoSOO','StroquOOL'):
            for t0 in (0,17):
                o=run(name,dom,pk,n,seed,R,t0=t0); rec('C15t0',o==base,(t0,))
        if name in('T_HOO','HCT','VHCT','Zooming') or name.startswith('POO'):
            o=run(name,dom,pk,n,seed,R,queries=set(rng.integers(0,n,size=8).tolist())); rec('C15q',o==base)
        # C16 affine
        for (s,sh) in ((1.0,3.0),(4.0,0.0),(0.5,-8.0),(3.0,0.7)):
            domT=[[lo*s+sh,hi*s+sh] for lo,hi in dom]
            o=run(name,domT,pk,n,seed,R)
            exp=[[x*s+sh for x in p] for p in base[0]],[x*s+sh for x in base[1]]
            exact=(o[0]==exp[0] and o[1]==exp[1])
            approx=all(abs(x-y)<=1e-9*max(1,abs(y)) for P,Q in zip(o[0]+[o[1]],exp[0]+[exp[1]]) for x,y in zip(P,Q))
            rec('C16'+('exact' if s in(1.0,4.0,0.5) and sh in (0.0,3.0,-8.0) else 'tol')+f'_s{s}', exact if (s,sh)!=(3.0,0.7) else approx, (s,sh,approx))
        signal.alarm(0)
    except TO: res[('TO',name)]+=1
    except Exception as e:
        signal.alarm(0); res[('EXC',name,type(e).__name__,str(e)[:40])]+=1
for k,v in sorted(res.items(),key=str):
    if not (len(k)==3 and k[2]==True): print(v,k,first.get(k[:2]))
print('ok counts',sum(v for k,v in res.items() if len(k)==3 and k[2]==True))
