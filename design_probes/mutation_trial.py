import os, shutil, subprocess, sys, json
BASE='/tmp/rf/PyXAB'
MUTS=[
 # name, file, old, new, probe cmd
 ('hoo_depth_exp','algos/HOO.py','nu * (rho ** self.depth)','nu * (rho ** (self.depth + 1))','ref_tree.py 24'),
 ('hoo_ucb_const','algos/HOO.py','math.sqrt(2 * math.log(rounds)','math.sqrt(math.log(rounds)','ref_tree.py 24'),
 ('hoo_minmax','algos/HOO.py','node.update_b_value(np.minimum(node.get_u_value(), tempB))','node.update_b_value(np.maximum(node.get_u_value(), tempB))','ref_tree.py 24'),
 ('hoo_trav_le','algos/HOO.py','if child.get_b_value() >= maxchild.get_b_value():','if child.get_b_value() <= maxchild.get_b_value():','ref_tree.py 24'),
 ('hoo_trunc_lt','algos/HOO.py','if path[-1].depth <= np.ceil(','if path[-1].depth < np.ceil(','ref_tree.py 24'),
 ('hoo_leaf_only','algos/HOO.py','        for node in path:\n','        for node in path[-1:]:\n','ref_tree.py 24'),
 ('hct_no_refresh','algos/HCT.py','if self.iteration == compute_t_plus(self.iteration):','if False:','ref_tree.py 24'),
 ('hct_skip_thr','algos/HCT.py','curr_node.get_visited_times() >= self.tau_h[curr_node.get_depth()]\n            and','True\n            and','ref_tree.py 24'),
 ('hct_expand_gt','algos/HCT.py','and end_node.get_visited_times() >= self.tau_h[en_depth]','and end_node.get_visited_times() > self.tau_h[en_depth]','ref_tree.py 24'),
 ('hct_whole_path','algos/HCT.py','        node = path[-1]\n\n        # Update the visited times and the average reward of the pulled node\n\n        node.update_reward(reward)','        for node in path:\n            node.update_reward(reward)','ref_tree.py 24'),
 ('vhct_const3','algos/VHCT.py','+ 3 * bound * c ** 2 * math.log(1 / delta_tilde) / self.visited_times','+ 2 * bound * c ** 2 * math.log(1 / delta_tilde) / self.visited_times','ref_tree.py 24'),
 ('vhct_back_skip','algos/VHCT.py','for i in range(1, self.partition.get_depth() + 1):\n            layer = nodes[-i]\n            for node in layer:\n                children','for i in range(2, self.partition.get_depth() + 1):\n            layer = nodes[-i]\n            for node in layer:\n                children','ref_tree.py 24'),
 ('zoom_no2','algos/Zooming.py','self.average_rewards[arm] + 2 * np.sqrt(','self.average_rewards[arm] + np.sqrt(','e8.py'),
 ('zoom_phase','algos/Zooming.py','            self.phase += 1\n','            self.phase += 0\n','e8.py'),
 ('zoom_contain','algos/Zooming.py','or point[dim] > child_domain[dim][1]','or point[dim] >= child_domain[dim][1]','e8.py'),
 ('soo_le','algos/SOO.py','node.get_reward() >= max_value','node.get_reward() <= max_value','e9.py'),
 ('stosoo_kcap','algos/StoSOO.py','.get_visited_times() < self.k:','.get_visited_times() <= self.k:','e9.py'),
 ('stosoo_2T','algos/StoSOO.py','/ (2 * self.visited_times)','/ (self.visited_times)','e9.py'),
 ('doo_le','algos/DOO.py','if node.get_b_value() >= max_value:','if node.get_b_value() <= max_value:','e9.py'),
 ('seq_budget','algos/SequOOL.py','self.budget = math.floor(self.h_max / self.curr_depth)\n                        self.curr_node = max_node','self.budget = math.floor(self.h_max / self.curr_depth) + 1\n                        self.curr_node = max_node','e11.py'),
 ('seq_argmin','algos/SequOOL.py','if node.get_reward() >= max_value:\n                            max_value','if -node.get_reward() >= max_value:\n                            max_value','e11.py'),
 ('seq_last','algos/SequOOL.py','        for node in self.chosen:','        for node in self.chosen[:-1]:','e11.py'),
 ('vroom_rev','algos/VROOM.py','rank = sorted(nodes, key=rank_fun, reverse=True)','rank = sorted(nodes, key=rank_fun)','e12.py'),
 ('vroom_prob','algos/VROOM.py','self.prob.append(1 / (h * node_list[h][l].get_rank()[-1] * self.const))','self.prob.append(1 / (node_list[h][l].get_rank()[-1] * self.const))','e12.py'),
 ('vroom_descent','algos/VROOM.py','            node = node.get_children()[sign]\n            self.update_list.append(node)\n            h += 1\n        return node.sample_uniform()','            self.update_list.append(node.get_children()[sign])\n            h += 1\n        return node.sample_uniform()','e12.py'),
 ('node_centre','partition/Node.py','point.append((x[0] + x[1]) / 2)','point.append(x[0] + x[1] / 2)','e18.py 0 60'),
 ('bin_index','partition/BinaryPartition.py','index=2 * parent.get_index() - 1,','index=2 * parent.get_index() + 1,','e17.py 38'),
 ('rk_pin','partition/RandomKaryPartition.py','                boundary_point_1 = selected_dim[1]\n','                boundary_point_1 = np.random.uniform(boundary_point_0, selected_dim[1])\n','e14.py'),
 ('kary_num','partition/KaryPartition.py','num=self.K + 1)','num=self.K + 1)[::-1]','e14.py'),
 ('poo_ceil','algos/POO.py','self.V_reward[self.algo_counter] * np.ceil(self.n / self.N) + reward\n            ) / (np.ceil(self.n / self.N) + 1)','self.V_reward[self.algo_counter] * (self.n / self.N) + reward\n            ) / ((self.n / self.N) + 1)','e7.py'),
 ('poo_nN','algos/POO.py','                self.n = self.n + self.N\n','                self.n = self.n + self.N + 1\n','e7.py'),
 ('gpo_grid','algos/GPO.py','(2 * self.N / (2 * self.phase + 1))','(2 * self.N / (2 * self.phase))','e5.py'),
 ('doo_time','algos/DOO.py','max_value = -np.inf\n\n        h = 0','max_value = -np.inf if time % 7 else np.inf\n\n        h = 0','e10.py 57'),
 ('hct_time','algos/HCT.py','self.curr_node, self.path = self.optTraverse()\n        return self.curr_node.get_cpoint()','self.iteration = max(self.iteration, time)\n        self.curr_node, self.path = self.optTraverse()\n        return self.curr_node.get_cpoint()','e10.py 57'),
]
only=sys.argv[1:] 
for name,f,old,new,probe in MUTS:
    if only and name not in only: continue
    d=f'/tmp/m/{name}'
    shutil.rmtree(d,ignore_errors=True); shutil.copytree(BASE,d+'/PyXAB')
    p=f'{d}/PyXAB/{f}'; s=open(p).read()
    if s.count(old)<1: print(name,'PATTERN NOT FOUND'); continue
    open(p,'w').write(s.replace(old,new,1))
    env=dict(os.environ,PYTHONPATH=d)
    try:
        r=subprocess.run(['/venv/bin/python']+probe.split(),cwd='/tmp/exp',env=env,capture_output=True,text=True,timeout=400)
        out=[l for l in (r.stdout+r.stderr).splitlines() if 'conda' not in l and 'Syntax' not in l and '"""' not in l]
        print('==',name,probe,'rc',r.returncode); print('   '+'\n   '.join(x[:230] for x in out[-4:]))
    except subprocess.TimeoutExpired: print('==',name,'TIMEOUT')
    shutil.rmtree(d,ignore_errors=True)
