from drv import *
for rm in (0.98,0.983,0.99):
    g=GPO(numax=1.0,rhomax=rm,rounds=100,domain=[[0,1]],algo=HCT)
    try:
        p=g.pull(1); print(rm,g.N,g.half_phase_length,'pull ->',p)
        g.receive_reward(1,0.5); print('  second pull',g.pull(2))
    except Exception as e: print(rm,g.N,g.half_phase_length,'EXC',repr(e)[:80])
