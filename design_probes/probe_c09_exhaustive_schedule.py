import math, numpy as np, sys
from PyXAB.algos.GPO import GPO
log=[]
class HCT:
    def __init__(s,nu=None,rho=None,domain=None,partition=None): s.i=sum(1 for e in log if e[0]=='new'); log.append(('new',s.i,nu,rho)); s.k=0
    def pull(s,t): s.k+=1; log.append(('pull',s.i)); return [s.i+s.k/1e4]
    def receive_reward(s,t,r): log.append(('rew',s.i,r))
bad=[]; cases=0; amb=0; skipped=0
grid=[0.02+0.96*j/39 for j in range(40)]
for n in range(100,int(sys.argv[1])):
    for rm in grid:
        Dmax=math.log(2)/math.log(1/rm)
        x=0.5*Dmax*math.log((n/2)/math.log(n/2))
        if abs(x-round(x))<1e-9: amb+=1; continue
        N=math.ceil(x); H=n//(2*N)
        if H<1: skipped+=1; continue
        log.clear()
        g=GPO(numax=1.5,rhomax=rm,rounds=n,domain=[[0,1]],algo=HCT)
        pts=[]
        for t in range(1,n+1):
            l0=len(log); p=g.pull(t); evp=log[l0:]; l1=len(log); g.receive_reward(t,float(t)); evr=log[l1:]
            ph=(t-1)//(2*H); off=(t-1)%(2*H)
            if ph<N:
                if off<H:
                    exp_p=[('pull',ph)] if off>0 else None
                    ok = (off==0 and len(evp)==2 and evp[0][0]=='new' and evp[0][1]==ph and abs(evp[0][3]-rm**(2*N/(2*(ph+1)+1)))<1e-12 and evp[0][2]==1.5 and evp[1]==('pull',ph)) or (off>0 and evp==[('pull',ph)])
                    ok = ok and evr==[('rew',ph,float(t))]
                else:
                    ok = evp==[] and evr==[] and p==pts[(ph*2*H)+H-1]
            else:
                sc=[np.mean([float(tt) for tt in range(i*2*H+H+1,i*2*H+2*H+1)]) for i in range(N)]
                ok = evp==[] and evr==[] and p==pts[int(np.argmax(sc))*2*H+H-1]
            pts.append(p)
            if not ok: bad.append((n,rm,t,ph,off,evp,evr,p)); break
        cases+=1
        V=[np.mean([float(tt) for tt in range(i*2*H+H+1,min(n,i*2*H+2*H)+1)]) for i in range(N) if i*2*H+H+1<=n]
        if not np.allclose(g.V_reward,V): bad.append((n,rm,'V',g.V_reward[:3],V[:3]))
        if len(bad)>3: break
    if len(bad)>3: break
print('cases',cases,'ambiguous',amb,'skippedH0',skipped,'bad',bad[:3])
