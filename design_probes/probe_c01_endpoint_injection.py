from drv import *
import collections
# D: end-point injection
orig_u=np.random.uniform
inj=np.random.default_rng(5)
def u(lo=0.0,hi=1.0,size=None):
    v=orig_u(lo,hi,size)
    if size is None:
        r=inj.random()
        if r<0.15: return lo
        if r<0.3: return hi
    return v
fails=collections.Counter()
np.random.uniform=u
try:
    for it in range(300):
        rng=np.random.default_rng(it+31)
        name=ALGOS[it%len(ALGOS)]
        pk=rng.choice(['RBin','RK2']) if name=='VROOM' else rng.choice(['RBin','RK2','RK3','RK5'])
        d=int(rng.integers(1,4)); dom=[[-1.0,2.0]]*d; n=int(rng.choice([100,200]))
        np.random.seed(it)
        try:
            signal.alarm(100)
            a,_=mk(name,dom,PARTS[pk],n,rng); R=rng.normal(0,1,n)
            for t in range(1,n+1):
                p=a.pull(t); assert inbox(p,dom),p
                a.receive_reward(t,float(R[t-1]))
            assert inbox(a.get_last_point(),dom)
            signal.alarm(0)
        except TO: fails[(name,'TO')]+=1
        except Exception as e:
            signal.alarm(0); fails[(name,type(e).__name__,str(e)[:50])]+=1
finally: np.random.uniform=orig_u
print('endpoint injection fails:',dict(fails))
