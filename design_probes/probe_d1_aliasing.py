import numpy as np
from PyXAB.partition.BinaryPartition import BinaryPartition
from PyXAB.partition.RandomBinaryPartition import RandomBinaryPartition
from PyXAB.partition.DimensionBinaryPartition import DimensionBinaryPartition
from PyXAB.partition.KaryPartition import KaryPartition
from PyXAB.partition.RandomKaryPartition import RandomKaryPartition
np.random.seed(0)
for P in [BinaryPartition, RandomBinaryPartition, DimensionBinaryPartition, KaryPartition, RandomKaryPartition]:
    p = P(domain=[[0,1],[2,5]])
    p.deepen(); p.deepen()
    nl = p.get_node_list()
    first = nl[1][0]
    print(P.__name__, [len(l) for l in nl], 'children of first depth-1 node:', len(first.get_children()), 'alias', first.get_children() is nl[2], 'root alias', p.get_root().get_children() is nl[1])
