from drv import *
import collections
def allnodes(part): return [x for l in part.get_node_list() for x in l]
c=collections.Counter(); first={}
for it in range(200):
    rng=np.random.default_rng(it+77)
    name=['SOO','DOO','StoSOO','SequOOL','StroquOOL'][it%5]
    pk=rng.choice(list(PARTS)); d=int(rng.integers(1,3)); n=int(rng.choice([100,200,400]))
    np.random.seed(it)
    a=mk(name,[[0.0,1.0]]*d,PARTS[pk],n,rng)[0]; part=a.partition
    led=collections.defaultdict(list); bycp={}
    def resolve(p):
        for x in allnodes(part):
            if x.get_cpoint() is p: return x
    R=rewards(rng.choice(['neg','tied','noisy']),rng,n)
    ended_at=None; valstart=None
    for t in range(1,n+1):
        p=a.pull(t); X=resolve(p)
        if X is None: c[(name,'unresolved')]+=1; break
        if name=='StroquOOL':
            if a.candidate and valstart is None: valstart=t
            if a.end and ended_at is None: ended_at=t
        r=float(R[t-1]); a.receive_reward(t,r); led[id(X)].append((t,r))
        tot=0
        for x in allnodes(part):
            h=[v for _,v in led[id(x)]]
            if name in('SOO','DOO'):
                got=[x.get_reward()] if x.visited else []
                cnt=len(got)
            elif name=='StoSOO': got=list(x.rewards); cnt=x.get_visited_times()
            elif name=='SequOOL': got=list(x.rewards); cnt=len(got)
            else:
                cnt=x.get_visited_times(); got=list(x.rewards)
                if valstart and x in a.candidate: h2=[v for tt,v in led[id(x)] if tt>=valstart]; 
                else: h2=h
                if ended_at: h=[v for tt,v in led[id(x)] if tt<ended_at]; h2=[v for tt,v in led[id(x)] if tt<ended_at and (not(valstart and x in a.candidate) or tt>=valstart)]
                if got!=h2: c[(name,'list')]+=1; first.setdefault((name,'list'),(it,t,valstart,ended_at))
                got=h  # count compare below
            if name!='StroquOOL' and got!=h: c[(name,'list')]+=1; first.setdefault((name,'list'),(it,t,got[:3],h[:3]))
            if cnt!=len(h): c[(name,'count')]+=1; first.setdefault((name,'count'),(it,t,cnt,len(h)))
            tot+=cnt
        exp=t if not ended_at else ended_at-1
        if tot!=exp: c[(name,'sum')]+=1; first.setdefault((name,'sum'),(it,t,tot,exp))
    c[(name,'runs')]+=1
    if name=='StroquOOL': c[('StroquOOL post-end rounds')]+= (n-ended_at+1) if ended_at else 0
print(dict(c)); print(first)
