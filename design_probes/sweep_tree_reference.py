import sys
from ref_tree import *
import collections
def run2(kind,seed):
    rng=np.random.default_rng(seed); np.random.seed(seed%(2**31))
    nu=float(10**rng.uniform(-2,2)); rho=float(rng.uniform(0.05,0.97)); c=float(10**rng.uniform(-3,0.5)); delta=float(10**rng.uniform(-6,-0.3)); bound=float(10**rng.uniform(-2,1.5))
    n=int(rng.choice([100,300,700,1500])); d=int(rng.integers(1,4)); pk=rng.choice(list(PARTS)); rk=rng.choice(['neg','const','zero','tied','noisy','large','unit'])
    dom=[[float(rng.uniform(-5,5)),0] for _ in range(d)]
    for iv in dom: iv[1]=iv[0]+float(10**rng.uniform(-3,3))
    P=dict(nu=nu,rho=rho,c=c,delta=delta,bound=bound,n=n,c1=(rho/(3*nu))**(1/8))
    if P['c1']*delta>0.5: return None
    if kind=='T_HOO': a=T_HOO(nu=nu,rho=rho,rounds=n,domain=dom,partition=PARTS[pk])
    elif kind=='HCT': a=HCT(nu=nu,rho=rho,c=c,delta=delta,domain=dom,partition=PARTS[pk])
    else: a=VHCT(nu=nu,rho=rho,c=c,delta=delta,bound=bound,domain=dom,partition=PARTS[pk])
    m=Mon(kind,a,P)
    R=rewards(rk,rng,n)
    if rk=='large' and rng.random()<.5: R=R+1e6
    for t in range(1,n+1):
        p=a.pull(t); m.on_pull(p)
        a.receive_reward(t,float(R[t-1])); m.on_reward(float(R[t-1]))
        if len(m.viol)>5: break
    return m,P,(pk,d,rk,n)
lo,hi=int(sys.argv[1]),int(sys.argv[2])
cnt=collections.Counter(); first={}
for seed in range(lo,hi):
    kind=['T_HOO','HCT','VHCT'][seed%3]
    try:
        r=run2(kind,seed)
    except Exception as e:
        cnt[(kind,'EXC',type(e).__name__,str(e)[:60])]+=1; first.setdefault((kind,'EXC'),seed); continue
    if r is None: cnt['skip']+=1; continue
    m,P,info=r; cnt[(kind,'run')]+=1
    for v in m.viol: cnt[(kind,v[1])]+=1; first.setdefault((kind,v[1]),(seed,info,P,v))
print(dict(cnt)); 
for k,v in first.items(): print(k,v)
