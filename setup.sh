#!/bin/bash
# offline set-up: icontract (runtime contracts on the real partition classes) next to the repository's interpreter
HERE="$(cd "$(dirname "${BASH_SOURCE[0]}")" && pwd)"
if [ ! -d "$HERE/.deps/icontract" ]; then
  PIP_NO_INDEX=1 /venv/bin/pip install --quiet --no-index --find-links /opt/veriftools/wheels \
      --target "$HERE/.deps" icontract || echo "setup: icontract could not be installed (C02/C03 fall back to plain wrappers)"
fi
/venv/bin/python -B -c "import sys; sys.path.insert(0,'$HERE/.deps'); import icontract; print('icontract', icontract.__version__)"
exit 0
